//! `lmsim-py`: the Python tier. Embeds CPython (pyo3 auto-initialize), registers the extension
//! module built from /repo/lightmotif-py as `lightmotif.lib`, and drives it under the same kit,
//! seams and process model as `lmsim`.

mod py;
mod pyscan;
mod pystream;
mod pyview;

#[global_allocator]
static GLOBAL: lmsim::seam::alloc::SimAlloc = lmsim::seam::alloc::SimAlloc;

fn sim_of(prop: &str) -> &'static str {
    match prop {
        "C18" => "pyview",
        "C14" | "C15" => "pystream",
        "C02" => "pyscan",
        _ => {
            eprintln!("HARNESS: no Python-tier simulator serves property {}", prop);
            std::process::exit(2);
        }
    }
}

macro_rules! with_sim {
    ($name:expr, $s:ident, $body:block) => {
        match $name {
            "pyview" => {
                type $s = pyview::PyViewSim;
                $body
            }
            "pystream" => {
                type $s = pystream::PyStreamSim;
                $body
            }
            "pyscan" => {
                type $s = pyscan::PyScanSim;
                $body
            }
            other => {
                eprintln!("HARNESS: unknown simulator {}", other);
                std::process::exit(2);
            }
        }
    };
}

fn main() {
    lmsim::lmsim_main!(sim_of, with_sim)
}
