//! Embedded CPython: one interpreter per process, the extension module of /repo/lightmotif-py
//! registered as `lightmotif.lib`, and a small Python helper module used by the harness.

use std::sync::OnceLock;

use pyo3::prelude::*;
use pyo3::types::{PyDict, PyList, PyModule};

/// Python side of the harness. Every function returns a JSON string; floats travel as strings so
/// that infinities survive and comparisons are exact.
const HELPER: &str = r#"
import gc, json, io

def _f(x):
    if isinstance(x, float):
        return repr(x)
    if isinstance(x, (list, tuple)):
        return [_f(y) for y in x]
    return x

def _exc(e):
    names = [c.__name__ for c in type(e).__mro__]
    return {"exc": type(e).__name__, "panic": "PanicException" in names,
            "is_exception": isinstance(e, Exception), "msg": str(e)[:300]}

def guard(fn):
    def wrapped(*a, **k):
        try:
            return json.dumps({"ok": fn(*a, **k)})
        except BaseException as e:
            return json.dumps(_exc(e))
    return wrapped

@guard
def do_index(obj, i):
    return _f(obj[i])

@guard
def do_len(obj):
    return len(obj)

def describe(mv):
    return {"ndim": mv.ndim, "shape": list(mv.shape), "strides": list(mv.strides),
            "format": mv.format, "itemsize": mv.itemsize, "readonly": mv.readonly,
            "list": _f(mv.tolist())}

@guard
def take_view(store, key, obj):
    mv = memoryview(obj)
    store[key] = mv
    return describe(mv)

@guard
def read_view(store, key):
    return describe(store[key])

@guard
def drop_view(store, key):
    mv = store.pop(key)
    mv.release()
    return True

@guard
def new_seq(lm, text, protein):
    enc = lm.EncodedSequence(text, protein=protein)
    return enc

@guard
def collect():
    return gc.collect()
"#;

pub struct PyEnv {
    pub lightmotif: Py<PyModule>,
    pub helper: Py<PyModule>,
}

static ENV: OnceLock<PyEnv> = OnceLock::new();

/// Initialise the interpreter once per process (under the system allocator policy).
pub fn env() -> &'static PyEnv {
    ENV.get_or_init(|| {
        pyo3::prepare_freethreaded_python();
        Python::with_gil(|py| -> PyResult<PyEnv> {
            let sys = py.import_bound("sys")?;
            sys.getattr("path")?.downcast::<PyList>()?.insert(0, "/repo/lightmotif-py")?;
            // never write .pyc files into /repo
            sys.setattr("dont_write_bytecode", true)?;
            let module = PyModule::new_bound(py, "lightmotif.lib")?;
            lightmotif_py::init(py, &module)?;
            sys.getattr("modules")?.downcast::<PyDict>()?.set_item("lightmotif.lib", module)?;
            let lm = py.import_bound("lightmotif")?;
            let helper = PyModule::from_code_bound(py, HELPER, "lmsim_helper.py", "lmsim_helper")?;
            Ok(PyEnv {
                lightmotif: lm.unbind(),
                helper: helper.unbind(),
            })
        })
        .unwrap_or_else(|e| {
            eprintln!("HARNESS: cannot initialise the embedded Python interpreter: {}", e);
            std::process::exit(2);
        })
    })
}
