//! Embedded CPython: one interpreter per process, the extension module of /repo/lightmotif-py
//! registered as `lightmotif.lib`, and a small Python helper module used by the harness.

use std::sync::OnceLock;

use pyo3::prelude::*;
use pyo3::types::{PyDict, PyList, PyModule};

/// Python side of the harness. Every function returns a JSON string; floats travel as strings so
/// that infinities survive and comparisons are exact.
const HELPER: &str = r#"
import gc, json, io, struct

def _f(x):
    if isinstance(x, float):
        return repr(x)
    if isinstance(x, (list, tuple)):
        return [_f(y) for y in x]
    return x

def _exc(e):
    names = [c.__name__ for c in type(e).__mro__]
    return {"exc": type(e).__name__, "panic": "PanicException" in names,
            "is_exception": isinstance(e, Exception), "msg": str(e)[:300]}

def guard(fn):
    def wrapped(*a, **k):
        try:
            return json.dumps({"ok": fn(*a, **k)})
        except BaseException as e:
            return json.dumps(_exc(e))
    return wrapped

class IndexLike:
    """An integer in the sense of the index protocol (what numpy.int64 and friends are)."""
    def __init__(self, i):
        self.i = i
    def __index__(self):
        return self.i

@guard
def do_index(obj, i, kind=0):
    if kind == 1:
        i = IndexLike(i)
    elif kind == 2:
        i = bool(i)
    return _f(obj[i])

@guard
def do_len(obj):
    return len(obj)

def _flat(x):
    if isinstance(x, list):
        for y in x:
            yield from _flat(y)
    else:
        yield x

def _raw(mv, items):
    # the bytes the view hands out as a whole, against the packing of its own elements
    try:
        b = mv.tobytes()
    except BaseException as e:
        return {"exc": type(e).__name__, "msg": str(e)[:200]}
    flat = list(_flat(items))
    exp = struct.pack("%d%s" % (len(flat), mv.format), *flat)
    return {"len": len(b), "want": len(exp), "same": b == exp}

def describe(mv):
    items = mv.tolist()
    return {"ndim": mv.ndim, "shape": list(mv.shape), "strides": list(mv.strides),
            "format": mv.format, "itemsize": mv.itemsize, "readonly": mv.readonly,
            "nbytes": mv.nbytes, "raw": _raw(mv, items),
            "list": _f(items)}

@guard
def take_view(store, key, obj):
    mv = memoryview(obj)
    store[key] = mv
    return describe(mv)

@guard
def read_view(store, key):
    return describe(store[key])

@guard
def drop_view(store, key):
    mv = store.pop(key)
    mv.release()
    return True

@guard
def new_seq(lm, text, protein):
    enc = lm.EncodedSequence(text, protein=protein)
    return enc

@guard
def collect():
    return gc.collect()

def _other_motif(lm, width):
    return lm.ScoringMatrix({k: [0.25 * ((i + j) % 5) - 0.5 for i in range(width)] for j, k in enumerate("ACTG")})

@guard
def do_scan(lm, values, seq, threshold, block_size, poke_width, pre_width=0, use_copy=False):
    pssm = lm.ScoringMatrix(values)
    striped = lm.stripe(seq)
    if pre_width > 0:
        # the sequence object has a past: it was scored with another motif before
        _other_motif(lm, pre_width).calculate(striped)
    if use_copy:
        striped = striped.copy()
    hits = []
    overflow = False
    poked = poke_width <= 0
    for h in lm.scan(pssm, striped, threshold=threshold, block_size=block_size):
        hits.append([h.position, repr(h.score)])
        if not poked:
            # score the same sequence object with another motif while the scanner is alive
            poked = True
            _other_motif(lm, poke_width).calculate(striped)
        if len(hits) > len(seq) + 2:
            overflow = True
            break
    return {"hits": hits, "overflow": overflow}

@guard
def lib_scores(lm, values, seq, positions):
    # the library's own full scoring of the same matrix and sequence, at the given positions
    pssm = lm.ScoringMatrix(values)
    striped = lm.stripe(seq)
    scores = pssm.calculate(striped)
    return [repr(scores[i]) for i in positions]

import errno

class SimFile:
    """File object of the Python tier: read(n) returns at most n bytes per the transport plan."""
    def __init__(self, data, plan):
        self.data = data if plan["truncate"] is None else data[:plan["truncate"]]
        self.pos = 0
        self.chunks = plan["chunks"]
        self.ci = 0
        self.cuts = plan["cuts"]
        self.eintr = dict(plan["eintr"])
        self.error_at = plan["error_at"]
        self.errno = plan["errno"]
        self.reads = 0
        self.fetches = 0
        self.eintr_fired = 0
        self.hard_fired = 0
        self.short_reads = 0
        self.failed = False
        self.budget = 8 * len(data) + 8 * sum(self.eintr.values()) + 1000
        self.budget_exceeded = False

    def _exc(self):
        if self.errno:
            return OSError(self.errno, "simulated I/O error")
        return ValueError("simulated failure in read()")

    def read(self, n=-1):
        if n == 0:
            return b""
        self.reads += 1
        if self.reads > self.budget:
            self.budget_exceeded = True
            raise RuntimeError("SIM-BUDGET: file object read beyond its budget")
        if self.failed:
            self.hard_fired += 1
            raise self._exc()
        left = self.eintr.get(self.fetches, 0)
        if left > 0:
            self.eintr[self.fetches] = left - 1
            self.eintr_fired += 1
            raise OSError(errno.EINTR, "simulated EINTR")
        self.fetches += 1
        if self.error_at is not None and self.error_at <= len(self.data) and self.pos >= self.error_at:
            self.failed = True
            self.hard_fired += 1
            raise self._exc()
        remaining = len(self.data) - self.pos
        if remaining <= 0:
            return b""
        want = remaining if (n is None or n < 0) else min(n, remaining)
        k = want
        if self.chunks:
            k = min(k, max(1, self.chunks[self.ci % len(self.chunks)]))
            self.ci += 1
        for c in self.cuts:
            if c > self.pos:
                k = min(k, c - self.pos)
                break
        if self.error_at is not None and self.error_at > self.pos:
            k = min(k, self.error_at - self.pos)
        if k < want:
            self.short_reads += 1
        out = self.data[self.pos:self.pos + k]
        self.pos += k
        return out

def describe_motif(m):
    counts = m.counts
    d = {"name": m.name,
         "description": getattr(m, "description", None),
         "id": getattr(m, "id", None),
         "accession": getattr(m, "accession", None),
         "counts": None if counts is None else [list(counts[i]) for i in range(len(counts))],
         "pwm": None}
    if counts is None:
        pwm = m.pwm
        d["pwm"] = [_f(list(pwm[i])) for i in range(len(pwm))]
    return d

def load_all(lm, data, plan, fmt, protein):
    f = SimFile(data, plan)
    motifs = []
    end = {}
    try:
        for m in lm.load(f, format=fmt, protein=protein):
            motifs.append(describe_motif(m))
            if len(motifs) > len(data) + 2:
                end = {"exc": "TooManyItems", "panic": False, "is_exception": True, "msg": "more items than bytes"}
                f.budget_exceeded = True
                break
    except BaseException as e:
        end = _exc(e)
    return json.dumps({"reads": f.reads, "eintr_fired": f.eintr_fired, "hard_fired": f.hard_fired,
                       "short_reads": f.short_reads, "budget_exceeded": f.budget_exceeded,
                       "motifs": motifs, "end": end})
"#;

pub struct PyEnv {
    pub lightmotif: Py<PyModule>,
    pub helper: Py<PyModule>,
}

static ENV: OnceLock<PyEnv> = OnceLock::new();

/// Initialise the interpreter once per process (under the system allocator policy).
pub fn env() -> &'static PyEnv {
    ENV.get_or_init(|| {
        pyo3::prepare_freethreaded_python();
        Python::with_gil(|py| -> PyResult<PyEnv> {
            let sys = py.import_bound("sys")?;
            sys.getattr("path")?.downcast::<PyList>()?.insert(0, "/repo/lightmotif-py")?;
            // never write .pyc files into /repo
            sys.setattr("dont_write_bytecode", true)?;
            let module = PyModule::new_bound(py, "lightmotif.lib")?;
            lightmotif_py::init(py, &module)?;
            sys.getattr("modules")?.downcast::<PyDict>()?.set_item("lightmotif.lib", module)?;
            let lm = py.import_bound("lightmotif")?;
            let helper = PyModule::from_code_bound(py, HELPER, "lmsim_helper.py", "lmsim_helper")?;
            Ok(PyEnv {
                lightmotif: lm.unbind(),
                helper: helper.unbind(),
            })
        })
        .unwrap_or_else(|e| {
            eprintln!("HARNESS: cannot initialise the embedded Python interpreter: {}", e);
            std::process::exit(2);
        })
    })
}
