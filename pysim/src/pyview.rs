//! Simulator `pyview`: Python objects of the `lightmotif` module driven through histories of
//! indexing, len(), memoryview export, re-reading of earlier views, scoring (which may grow the
//! matrix behind a live view), copy and drop, under allocator policies that make stale views
//! deterministic (growth always moves; freed blocks are poisoned or unmapped). Serves C18.

use std::collections::BTreeMap;

use pyo3::prelude::*;
use pyo3::types::{PyDict, PyList};
use serde::{Deserialize, Serialize};
use serde_json::Value;

use lightmotif::abc::{Alphabet, Dna, Protein};
use lightmotif::pwm::CountMatrix;
use lightmotif::seq::EncodedSequence;
use lmsim::kit::{sut, Outcome, Phase, Prng, Sim, Tier, Violation};
use lmsim::seam::alloc::{self, Policy};

use crate::py;

#[derive(Clone, Copy, Debug, Serialize, Deserialize, PartialEq, Eq, PartialOrd, Ord)]
pub enum Target {
    Enc,
    Striped,
    Counts,
    Pwm,
    Pssm,
    Scores,
    Dist,
}

#[derive(Clone, Copy, Debug, Serialize, Deserialize, PartialEq)]
pub enum POp {
    NewSeq { len: usize, seed: u64, protein: bool },
    NewMotif { width: usize, n: usize, seed: u64, protein: bool },
    /// `lightmotif.ScoringMatrix(values, background=...)` (DNA) with a background from a small table of
    /// eighths, some of them with equal entries.
    NewPssm { width: usize, seed: u64, bg: usize },
    /// `pssm = pssm.reverse_complement()` (DNA).
    RevComp,
    Index { target: Target, index: i64 },
    Len { target: Target },
    TakeView { target: Target },
    ReadView { which: usize },
    DropView { which: usize },
    Calculate,
    Scan { threshold_bits: u32 },
    Copy { target: Target },
    Drop { target: Target },
    Distribution,
}

#[derive(Clone, Debug, Serialize, Deserialize, PartialEq)]
pub struct Sc {
    pub alloc: Policy,
    pub ops: Vec<POp>,
}

fn letters(protein: bool) -> &'static [u8] {
    if protein {
        b"ACDEFGHIKLMNPQRSTVWYX"
    } else {
        b"ACTGN"
    }
}

fn gen_text(len: usize, seed: u64, protein: bool) -> Vec<u8> {
    let l = letters(protein);
    let mut r = Prng::new(seed);
    (0..len)
        .map(|_| if r.chance(1, 12) { l[l.len() - 1] } else { l[r.usize_below(l.len() - 1)] })
        .collect()
}

#[derive(Clone, Debug)]
enum Expect {
    Enc(Vec<u8>),
    Striped { syms: Vec<u8>, k: usize },
    Pssm(Vec<Vec<f32>>),
    Scores { valid: Vec<f32>, rows: usize },
    Dist(Vec<f64>),
}

struct SeqObj {
    syms: Vec<u8>,
    protein: bool,
    enc: PyObject,
    striped: PyObject,
}

struct MotifObj {
    protein: bool,
    counts: Vec<Vec<u32>>,
    pwm: Vec<Vec<f32>>,
    pssm: Vec<Vec<f32>>,
    sf: Vec<f64>,
    counts_obj: Option<PyObject>,
    pwm_obj: Option<PyObject>,
    pssm_obj: PyObject,
    /// Rust-side twin of a DNA scoring matrix built explicitly (for reverse complements).
    twin: Option<lightmotif::pwm::ScoringMatrix<Dna>>,
}

const BACKGROUNDS: [[u8; 4]; 6] = [[2, 2, 2, 2], [3, 1, 1, 3], [1, 3, 3, 1], [3, 1, 3, 1], [1, 2, 2, 3], [4, 1, 2, 1]];

struct ScoresObj {
    obj: PyObject,
    valid: Vec<f32>,
    rows: usize,
}

fn model_matrices<A: Alphabet>(seqs: &[Vec<u8>]) -> (Vec<Vec<u32>>, Vec<Vec<f32>>, Vec<Vec<f32>>, Vec<f64>) {
    let encoded: Vec<EncodedSequence<A>> = seqs.iter().map(|s| EncodedSequence::<A>::encode(s).expect("HARNESS: motif sequence must encode")).collect();
    let cm = CountMatrix::<A>::from_sequences(encoded.iter()).expect("HARNESS: from_sequences");
    let pwm = cm.to_freq(0.0).to_weight(None);
    let pssm = pwm.to_scoring();
    let sf = pssm.to_score_distribution().sf().to_vec();
    (
        cm.matrix().iter().map(|r| r.to_vec()).collect(),
        pwm.matrix().iter().map(|r| r.to_vec()).collect(),
        pssm.matrix().iter().map(|r| r.to_vec()).collect(),
        sf,
    )
}

fn close(a: f64, b: f64) -> bool {
    if a == b || (a.is_nan() && b.is_nan()) {
        return true;
    }
    if a.is_infinite() || b.is_infinite() {
        return false;
    }
    (a - b).abs() <= 1e-4 * (1.0 + b.abs())
}

fn num(v: &Value) -> Option<f64> {
    match v {
        Value::Number(n) => n.as_f64(),
        Value::String(s) => s.parse::<f64>().ok(),
        _ => None,
    }
}

/// Compare a described memoryview with the logical content it stands for.
fn check_view(desc: &Value, exp: &Expect) -> Option<(String, String)> {
    let ndim = desc["ndim"].as_u64().unwrap_or(99);
    let format = desc["format"].as_str().unwrap_or("?");
    let shape: Vec<i64> = desc["shape"].as_array().map(|a| a.iter().filter_map(|x| x.as_i64()).collect()).unwrap_or_default();
    let list = &desc["list"];
    let bad = |part: &str, d: String| Some((part.to_string(), d));
    match exp {
        Expect::Enc(syms) => {
            if ndim != 1 || format != "B" || shape != vec![syms.len() as i64] {
                return bad("shape", format!("encoded sequence of {} symbols exported as ndim={} format={} shape={:?}", syms.len(), ndim, format, shape));
            }
            let got: Vec<u64> = list.as_array().map(|a| a.iter().filter_map(|x| x.as_u64()).collect()).unwrap_or_default();
            for (i, &s) in syms.iter().enumerate() {
                if got.get(i).copied() != Some(s as u64) {
                    return bad("contents", format!("view[{}] = {:?} but symbol {} of the sequence is #{}", i, got.get(i), i, s));
                }
            }
        }
        Expect::Striped { syms, k } => {
            let l = syms.len();
            let c_n = 32usize;
            let r = (l + c_n - 1) / c_n;
            let wild = (*k - 1) as u64;
            // the logical table of a striped sequence is columns x sequence rows: look-ahead rows added for
            // scoring are an internal detail and must not show (they never do on the pinned tree)
            if ndim != 2 || format != "B" || shape.len() != 2 || shape[0] != c_n as i64 || shape[1] as usize != r {
                return bad("shape", format!("striped sequence of {} symbols ({} sequence rows) exported as ndim={} format={} shape={:?}", l, r, ndim, format, shape));
            }
            let rows_shown = shape[1] as usize;
            let cols = list.as_array().cloned().unwrap_or_default();
            for c in 0..c_n {
                let col = cols.get(c).and_then(|x| x.as_array()).cloned().unwrap_or_default();
                if col.len() != rows_shown {
                    return bad("shape", format!("column {} of the view has {} entries for shape {:?}", c, col.len(), shape));
                }
                for row in 0..rows_shown {
                    let want = if r == 0 {
                        wild
                    } else {
                        let idx = c * r + row;
                        let real_col = c + row / r;
                        if real_col < c_n && idx < l {
                            syms[idx] as u64
                        } else {
                            wild
                        }
                    };
                    if col[row].as_u64() != Some(want) {
                        return bad(
                            if row < r { "contents" } else { "look-ahead-contents" },
                            format!("view[column {}][row {}] = {} but the logical symbol there is #{} (L={}, R={}, rows shown={})", c, row, col[row], want, l, r, rows_shown),
                        );
                    }
                }
            }
        }
        Expect::Pssm(m) => {
            let rows = m.len();
            let k = m.first().map(|r| r.len()).unwrap_or(0);
            if ndim != 2 || format != "f" || shape.len() != 2 {
                return bad("shape", format!("scoring matrix exported as ndim={} format={} shape={:?}", ndim, format, shape));
            }
            let outer = list.as_array().cloned().unwrap_or_default();
            let get = |i: usize, j: usize| -> Option<f64> { outer.get(i).and_then(|x| x.as_array()).and_then(|a| a.get(j)).and_then(num) };
            let as_km = shape == vec![k as i64, rows as i64];
            let as_mk = shape == vec![rows as i64, k as i64];
            if !as_km && !as_mk {
                return bad("shape", format!("scoring matrix of {} positions x {} symbols exported with shape {:?}", rows, k, shape));
            }
            let mut err_km = None;
            let mut err_mk = None;
            for p in 0..rows {
                for s in 0..k {
                    let want = m[p][s] as f64;
                    if as_km && err_km.is_none() {
                        let g = get(s, p);
                        if !g.map(|g| close(g, want)).unwrap_or(false) {
                            err_km = Some(format!("view[symbol {}][position {}] = {:?} but the matrix entry is {}", s, p, g, want));
                        }
                    }
                    if as_mk && err_mk.is_none() {
                        let g = get(p, s);
                        if !g.map(|g| close(g, want)).unwrap_or(false) {
                            err_mk = Some(format!("view[position {}][symbol {}] = {:?} but the matrix entry is {}", p, s, g, want));
                        }
                    }
                }
            }
            let ok = (as_km && err_km.is_none()) || (as_mk && err_mk.is_none());
            if !ok {
                return bad("contents", err_km.or(err_mk).unwrap_or_default());
            }
        }
        Expect::Scores { valid, rows } => {
            if ndim != 2 || format != "f" || shape != vec![32, *rows as i64] {
                return bad("shape", format!("striped scores with {} rows exported as ndim={} format={} shape={:?}", rows, ndim, format, shape));
            }
            let outer = list.as_array().cloned().unwrap_or_default();
            for (i, &want) in valid.iter().enumerate() {
                let c = i / rows;
                let r = i % rows;
                let g = outer.get(c).and_then(|x| x.as_array()).and_then(|a| a.get(r)).and_then(num);
                if !g.map(|g| close(g, want as f64)).unwrap_or(false) {
                    return bad("contents", format!("view[column {}][row {}] = {:?} but the score of position {} is {}", c, r, g, i, want));
                }
            }
        }
        Expect::Dist(sf) => {
            if ndim != 1 || format != "d" || shape != vec![sf.len() as i64] {
                return bad("shape", format!("survival function of {} values exported as ndim={} format={} shape={:?}", sf.len(), ndim, format, shape));
            }
            let got: Vec<Option<f64>> = list.as_array().map(|a| a.iter().map(num).collect()).unwrap_or_default();
            for (i, &w) in sf.iter().enumerate() {
                if !got.get(i).copied().flatten().map(|g| g == w || close(g, w)).unwrap_or(false) {
                    return bad("contents", format!("view[{}] = {:?} but the survival function there is {}", i, got.get(i), w));
                }
            }
        }
    }
    // The view as a whole: its byte length is the logical table and nothing else, and the bytes it hands
    // out in one piece (tobytes(), bytes(obj), numpy.frombuffer...) are its logical elements - nothing
    // missing, no padding, look-ahead rows or foreign memory behind them.
    let itemsize = desc["itemsize"].as_i64().unwrap_or(0);
    let logical: i64 = shape.iter().product::<i64>() * itemsize;
    if let Some(nbytes) = desc["nbytes"].as_i64() {
        if nbytes != logical {
            return bad("nbytes", format!("the view says it holds {} bytes but shape {:?} x itemsize {} is {} bytes", nbytes, shape, itemsize, logical));
        }
    }
    let raw = &desc["raw"];
    if let Some(e) = raw.get("exc").and_then(|e| e.as_str()) {
        return bad("tobytes", format!("tobytes() of the view raised {} ({})", e, raw["msg"].as_str().unwrap_or("")));
    }
    if raw.get("same").and_then(|b| b.as_bool()) == Some(false) {
        return bad(
            "tobytes",
            format!("tobytes() of the view returned {} bytes that are not the packing of its {} logical bytes (shape {:?})", raw["len"], raw["want"], shape),
        );
    }
    None
}

fn target_name(t: Target) -> &'static str {
    match t {
        Target::Enc => "EncodedSequence",
        Target::Striped => "StripedSequence",
        Target::Counts => "CountMatrix",
        Target::Pwm => "WeightMatrix",
        Target::Pssm => "ScoringMatrix",
        Target::Scores => "StripedScores",
        Target::Dist => "ScoreDistribution",
    }
}

fn op_name(op: &POp) -> &'static str {
    match op {
        POp::NewSeq { .. } => "new-seq",
        POp::NewMotif { .. } => "new-motif",
        POp::NewPssm { .. } => "new-pssm",
        POp::RevComp => "reverse_complement",
        POp::Index { .. } => "index",
        POp::Len { .. } => "len",
        POp::TakeView { .. } => "take-view",
        POp::ReadView { .. } => "read-view",
        POp::DropView { .. } => "drop-view",
        POp::Calculate => "calculate",
        POp::Scan { .. } => "scan",
        POp::Copy { .. } => "copy",
        POp::Drop { .. } => "drop",
        POp::Distribution => "score_distribution",
    }
}

pub struct PyViewSim;

struct World {
    seq: Option<SeqObj>,
    motif: Option<MotifObj>,
    scores: Option<ScoresObj>,
    dist: Option<(PyObject, Vec<f64>)>,
    views: BTreeMap<usize, (Target, Expect, bool, u64)>, // (target, expectation, taken before a reuse, object generation)
    next_view: usize,
    /// Identity of the current striped-sequence object and the look-ahead rows it has.
    seq_gen: u64,
    wrap: usize,
}

/// Call a helper function returning a JSON string.
fn call_json<'py>(py: Python<'py>, name: &str, args: impl IntoPy<Py<pyo3::types::PyTuple>>) -> Value {
    let helper = py::env().helper.bind(py);
    let r = sut(|| helper.getattr(name).and_then(|f| f.call1(args)).and_then(|v| v.extract::<String>()));
    match r {
        Ok(Ok(s)) => serde_json::from_str(&s).unwrap_or(Value::Null),
        Ok(Err(e)) => {
            // an exception escaped the helper's own try/except: report it like the helper would
            let panic = e.is_instance_of::<pyo3::panic::PanicException>(py);
            serde_json::json!({"exc": e.get_type_bound(py).name().map(|n| n.to_string()).unwrap_or_default(), "panic": panic, "is_exception": true, "msg": e.to_string()})
        }
        Err(p) => serde_json::json!({"exc": "RustPanic", "panic": true, "is_exception": false, "msg": p.msg}),
    }
}

fn exc_violation(v: &Value, op: &POp, what: &str) -> Option<Violation> {
    if v.get("exc").is_none() {
        return None;
    }
    let panic = v["panic"].as_bool().unwrap_or(false);
    let is_exc = v["is_exception"].as_bool().unwrap_or(true);
    if panic || !is_exc {
        return Some(Violation::new(
            "python-panic",
            format!("op={},what={}", op_name(op), what),
            format!("{:?}: raised {} ({})", op, v["exc"].as_str().unwrap_or("?"), v["msg"].as_str().unwrap_or("")),
        ));
    }
    None
}

impl PyViewSim {
    fn run_inner(sc: &Sc, o: &mut Outcome) {
        let env = py::env();
        o.probe(match sc.alloc {
            Policy::System => "alloc=system",
            Policy::ExactPoison => "alloc=exact-align+poison",
            Policy::GuardEnd => "alloc=guard-end",
            Policy::GuardStart => "alloc=guard-start",
        });
        alloc::begin_run(sc.alloc);
        Python::with_gil(|py| {
            let lm = env.lightmotif.bind(py);
            let store = PyDict::new_bound(py);
            let mut w = World {
                seq: None,
                motif: None,
                scores: None,
                dist: None,
                views: BTreeMap::new(),
                next_view: 0,
                seq_gen: 0,
                wrap: 0,
            };
            for (i, op) in sc.ops.iter().enumerate() {
                o.steps += 1;
                if let Some(v) = Self::step(py, lm, &store, &mut w, op, o) {
                    let mut v = v;
                    v.detail = format!("op #{}: {}", i, v.detail);
                    o.violate(v);
                    break;
                }
                lmsim::ev!(o.trace, "op#{} {:?} views={}", i, op, w.views.len());
            }
            // release everything before the run ends so that the simulated heap can be reset
            let _ = sut(|| {
                for (_, v) in store.iter() {
                    let _ = v.call_method0("release");
                }
                store.clear();
                w.seq = None;
                w.motif = None;
                w.scores = None;
                w.dist = None;
            });
            let _ = call_json(py, "collect", ());
        });
        alloc::end_run();
    }

    fn object_for<'a>(w: &'a World, t: Target) -> Option<&'a PyObject> {
        match t {
            Target::Enc => w.seq.as_ref().map(|s| &s.enc),
            Target::Striped => w.seq.as_ref().map(|s| &s.striped),
            Target::Counts => w.motif.as_ref().and_then(|m| m.counts_obj.as_ref()),
            Target::Pwm => w.motif.as_ref().and_then(|m| m.pwm_obj.as_ref()),
            Target::Pssm => w.motif.as_ref().map(|m| &m.pssm_obj),
            Target::Scores => w.scores.as_ref().map(|s| &s.obj),
            Target::Dist => w.dist.as_ref().map(|d| &d.0),
        }
    }

    fn step<'py>(py: Python<'py>, lm: &Bound<'py, PyModule>, store: &Bound<'py, PyDict>, w: &mut World, op: &POp, o: &mut Outcome) -> Option<Violation> {
        match *op {
            POp::NewSeq { len, seed, protein } => {
                let text = gen_text(len, seed, protein);
                let s = String::from_utf8(text.clone()).unwrap();
                let kwargs = PyDict::new_bound(py);
                kwargs.set_item("protein", protein).unwrap();
                let r = sut(|| -> PyResult<(PyObject, PyObject)> {
                    let enc = lm.getattr("EncodedSequence")?.call((s.as_str(),), Some(&kwargs))?;
                    let striped = enc.call_method0("stripe")?;
                    Ok((enc.unbind(), striped.unbind()))
                });
                match r {
                    Ok(Ok((enc, striped))) => {
                        let l = letters(protein);
                        let syms: Vec<u8> = text.iter().map(|c| l.iter().position(|x| x == c).unwrap() as u8).collect();
                        // views of the previous sequence objects stay alive and must stay valid
                        w.seq = Some(SeqObj { syms, protein, enc, striped });
                        w.seq_gen += 1;
                        w.wrap = 0;
                        None
                    }
                    Ok(Err(e)) => Some(Violation::new(
                        if e.is_instance_of::<pyo3::panic::PanicException>(py) { "python-panic" } else { "unexpected-exception" },
                        "op=new-seq,what=construct",
                        format!("{:?}: {}", op, e),
                    )),
                    Err(p) => Some(Violation::new(p.class(), "op=new-seq", p.msg)),
                }
            }
            POp::NewMotif { width, n, seed, protein } => {
                let mut r = Prng::new(seed);
                let l = letters(protein);
                let seqs: Vec<Vec<u8>> = (0..n.max(1)).map(|_| (0..width.max(1)).map(|_| l[r.usize_below(l.len() - 1)]).collect()).collect();
                let models = sut(|| if protein { model_matrices::<Protein>(&seqs) } else { model_matrices::<Dna>(&seqs) });
                let (counts, pwm, pssm, sf) = match models {
                    Ok(m) => m,
                    Err(p) => return Some(Violation::new(p.class(), "op=new-motif,what=model", p.msg)),
                };
                let kwargs = PyDict::new_bound(py);
                kwargs.set_item("protein", protein).unwrap();
                let pyseqs = PyList::new_bound(py, seqs.iter().map(|s| String::from_utf8(s.clone()).unwrap()));
                let res = sut(|| -> PyResult<(PyObject, PyObject, PyObject)> {
                    let m = lm.getattr("create")?.call((pyseqs,), Some(&kwargs))?;
                    Ok((m.getattr("counts")?.unbind(), m.getattr("pwm")?.unbind(), m.getattr("pssm")?.unbind()))
                });
                match res {
                    Ok(Ok((c, p, s))) => {
                        w.motif = Some(MotifObj { protein, counts, pwm, pssm, sf, counts_obj: Some(c), pwm_obj: Some(p), pssm_obj: s, twin: None });
                        w.dist = None;
                        None
                    }
                    Ok(Err(e)) => Some(Violation::new(
                        if e.is_instance_of::<pyo3::panic::PanicException>(py) { "python-panic" } else { "unexpected-exception" },
                        "op=new-motif,what=construct",
                        format!("{:?}: {}", op, e),
                    )),
                    Err(p) => Some(Violation::new(p.class(), "op=new-motif", p.msg)),
                }
            }
            POp::NewPssm { width, seed, bg } => {
                use lightmotif::abc::Background;
                use lightmotif::dense::DenseMatrix;
                let mut r = Prng::new(seed);
                let width = width.max(1);
                let rows: Vec<[f32; 5]> = (0..width)
                    .map(|_| {
                        let mut row = [0f32; 5];
                        for j in 0..4 {
                            row[j] = (r.range(0, 96) as f32 - 64.0) / 8.0;
                        }
                        row[4] = f32::NEG_INFINITY;
                        row
                    })
                    .collect();
                let b = BACKGROUNDS[bg % BACKGROUNDS.len()];
                let freqs = [b[0] as f32 / 8.0, b[1] as f32 / 8.0, b[2] as f32 / 8.0, b[3] as f32 / 8.0, 0.0];
                let twin = sut(|| {
                    let dense = DenseMatrix::<f32, lightmotif::num::U5>::from_rows(rows.iter());
                    lightmotif::pwm::ScoringMatrix::<Dna>::new(Background::new(freqs).expect("HARNESS: background"), dense)
                });
                let twin = match twin {
                    Ok(t) => t,
                    Err(p) => return Some(Violation::new(p.class(), "op=new-pssm,what=model", p.msg)),
                };
                let sf = match sut(|| twin.to_score_distribution().sf().to_vec()) {
                    Ok(x) => x,
                    Err(p) => return Some(Violation::new(p.class(), "op=new-pssm,what=model", p.msg)),
                };
                let values = PyDict::new_bound(py);
                let bgd = PyDict::new_bound(py);
                for (j, sym) in ["A", "C", "T", "G", "N"].iter().enumerate() {
                    values.set_item(sym, PyList::new_bound(py, rows.iter().map(|row| row[j] as f64))).unwrap();
                    bgd.set_item(sym, freqs[j] as f64).unwrap();
                }
                let kwargs = PyDict::new_bound(py);
                kwargs.set_item("background", bgd).unwrap();
                let res = sut(|| lm.getattr("ScoringMatrix").and_then(|c| c.call((values,), Some(&kwargs))).map(|x| x.unbind()));
                match res {
                    Ok(Ok(obj)) => {
                        let pssm: Vec<Vec<f32>> = rows.iter().map(|r| r.to_vec()).collect();
                        w.motif = Some(MotifObj { protein: false, counts: Vec::new(), pwm: Vec::new(), pssm, sf, counts_obj: None, pwm_obj: None, pssm_obj: obj, twin: Some(twin) });
                        w.dist = None;
                        None
                    }
                    Ok(Err(e)) => Some(Violation::new(
                        if e.is_instance_of::<pyo3::panic::PanicException>(py) { "python-panic" } else { "unexpected-exception" },
                        "op=new-pssm,what=construct",
                        format!("{:?}: {}", op, e),
                    )),
                    Err(p) => Some(Violation::new(p.class(), "op=new-pssm", p.msg)),
                }
            }
            POp::RevComp => {
                let motif = match &w.motif {
                    Some(m) if !m.protein => m,
                    _ => return None,
                };
                // the model of the reverse complement: from the Rust twin when there is one, otherwise by
                // reversing the rows and exchanging A<->T, C<->G of the known matrix (uniform background)
                let twin = match &motif.twin {
                    Some(t) => sut(|| t.reverse_complement()),
                    None => sut(|| {
                        let rows: Vec<[f32; 5]> = motif.pssm.iter().map(|r| [r[0], r[1], r[2], r[3], r[4]]).collect();
                        let dense = lightmotif::dense::DenseMatrix::<f32, lightmotif::num::U5>::from_rows(rows.iter());
                        lightmotif::pwm::ScoringMatrix::<Dna>::new(lightmotif::abc::Background::uniform(), dense).reverse_complement()
                    }),
                };
                let twin = match twin {
                    Ok(t) => t,
                    Err(p) => return Some(Violation::new(p.class(), "op=reverse_complement,what=model", p.msg)),
                };
                let pssm: Vec<Vec<f32>> = motif.pssm.iter().rev().map(|r| vec![r[2], r[3], r[0], r[1], r[4]]).collect();
                let sf = match sut(|| twin.to_score_distribution().sf().to_vec()) {
                    Ok(x) => x,
                    Err(p) => return Some(Violation::new(p.class(), "op=reverse_complement,what=model", p.msg)),
                };
                let obj = motif.pssm_obj.clone_ref(py);
                let had_dist = w.dist.is_some();
                let r = sut(|| obj.bind(py).call_method0("reverse_complement").map(|x| x.unbind()));
                match r {
                    Ok(Ok(rc)) => {
                        if had_dist {
                            o.probe("reverse-complement-after-distribution-was-materialised");
                        }
                        w.motif = Some(MotifObj { protein: false, counts: Vec::new(), pwm: Vec::new(), pssm, sf, counts_obj: None, pwm_obj: None, pssm_obj: rc, twin: Some(twin) });
                        w.dist = None;
                        None
                    }
                    Ok(Err(e)) if e.is_instance_of::<pyo3::panic::PanicException>(py) => Some(Violation::new("python-panic", "op=reverse_complement,what=rc", format!("{:?}: {}", op, e))),
                    Ok(Err(e)) => Some(Violation::new("unexpected-exception", "op=reverse_complement,what=rc", format!("reverse_complement() raised {}", e))),
                    Err(p) => Some(Violation::new(p.class(), "op=reverse_complement", p.msg)),
                }
            }
            POp::Index { target, index } => {
                let (len, obj) = match (target, Self::object_for(w, target)) {
                    (Target::Enc, Some(ob)) => (w.seq.as_ref().unwrap().syms.len(), ob.clone_ref(py)),
                    (Target::Counts, Some(ob)) | (Target::Pwm, Some(ob)) | (Target::Pssm, Some(ob)) => (w.motif.as_ref().unwrap().pssm.len(), ob.clone_ref(py)),
                    (Target::Scores, Some(ob)) => (w.scores.as_ref().unwrap().valid.len(), ob.clone_ref(py)),
                    _ => return None,
                };
                // aim the index at the interesting places: 0, len-1, len, -1, -len, -len-1
                let li = len as i64;
                let idx = match index.rem_euclid(11) {
                    8 => i64::MIN,
                    9 => [i64::MAX, i64::MIN + 1, -(1i64 << 31), 1i64 << 31, -(1i64 << 32), (1i64 << 32) + 1][(index / 11).rem_euclid(6) as usize],
                    10 => li + (index / 11).rem_euclid(3),
                    0 => 0,
                    1 => li - 1,
                    2 => li,
                    3 => -1,
                    4 => -li,
                    5 => -li - 1,
                    6 => {
                        if li > 0 {
                            (index / 11).rem_euclid(li)
                        } else {
                            0
                        }
                    }
                    _ => {
                        if li > 0 {
                            -1 - (index / 11).rem_euclid(li)
                        } else {
                            -1
                        }
                    }
                };
                if idx < 0 {
                    o.probe("negative-index-used");
                }
                // the integer arrives as an int, as an object implementing the index protocol (what numpy
                // integers are), or - for 0 and 1 - as a bool (a subclass of int)
                let kind = if (index / 5).rem_euclid(4) == 3 {
                    o.probe("index-through-__index__");
                    1
                } else if (idx == 0 || idx == 1) && (index / 3).rem_euclid(5) == 0 {
                    2
                } else {
                    0
                };
                let v = call_json(py, "do_index", (obj, idx, kind));
                if let Some(viol) = exc_violation(&v, op, target_name(target)) {
                    return Some(viol);
                }
                let in_range = idx >= -li && idx < li;
                let tags = format!("op=index,what={}{}", target_name(target), if kind == 1 { ",via=__index__" } else { "" });
                if !in_range {
                    return match v.get("exc").and_then(|e| e.as_str()) {
                        Some("IndexError") => None,
                        Some(other) => Some(Violation::new("wrong-exception", tags, format!("{}[{}] with len {} raised {} instead of IndexError", target_name(target), idx, li, other))),
                        None => Some(Violation::new("index-accepted-out-of-range", tags, format!("{}[{}] with len {} returned {} instead of raising IndexError", target_name(target), idx, li, v["ok"]))),
                    };
                }
                let norm = if idx < 0 { (idx + li) as usize } else { idx as usize };
                if let Some(e) = v.get("exc") {
                    return Some(Violation::new(
                        "index-rejected-in-range",
                        format!("{},sign={}", tags, if idx < 0 { "negative" } else { "non-negative" }),
                        format!("{}[{}] with len {} raised {} ({})", target_name(target), idx, li, e, v["msg"].as_str().unwrap_or("")),
                    ));
                }
                let got = &v["ok"];
                let ok = match target {
                    Target::Enc => got.as_u64() == Some(w.seq.as_ref().unwrap().syms[norm] as u64),
                    Target::Counts => {
                        let want = &w.motif.as_ref().unwrap().counts[norm];
                        got.as_array().map(|a| a.len() == want.len() && a.iter().zip(want.iter()).all(|(g, w)| g.as_u64() == Some(*w as u64))).unwrap_or(false)
                    }
                    Target::Pwm | Target::Pssm => {
                        let m = w.motif.as_ref().unwrap();
                        let want = if target == Target::Pwm { &m.pwm[norm] } else { &m.pssm[norm] };
                        got.as_array().map(|a| a.len() == want.len() && a.iter().zip(want.iter()).all(|(g, w)| num(g).map(|g| close(g, *w as f64)).unwrap_or(false))).unwrap_or(false)
                    }
                    Target::Scores => num(got).map(|g| close(g, w.scores.as_ref().unwrap().valid[norm] as f64)).unwrap_or(false),
                    _ => true,
                };
                if !ok {
                    return Some(Violation::new("wrong-element", tags, format!("{}[{}] returned {} which is not logical element {}", target_name(target), idx, got, norm)));
                }
                None
            }
            POp::Len { target } => {
                let (want, obj) = match (target, Self::object_for(w, target)) {
                    (Target::Enc, Some(ob)) => (w.seq.as_ref().unwrap().syms.len(), ob.clone_ref(py)),
                    (Target::Counts, Some(ob)) | (Target::Pwm, Some(ob)) | (Target::Pssm, Some(ob)) => (w.motif.as_ref().unwrap().pssm.len(), ob.clone_ref(py)),
                    (Target::Scores, Some(ob)) => (w.scores.as_ref().unwrap().valid.len(), ob.clone_ref(py)),
                    _ => return None,
                };
                let v = call_json(py, "do_len", (obj,));
                if let Some(viol) = exc_violation(&v, op, target_name(target)) {
                    return Some(viol);
                }
                if v["ok"].as_u64() != Some(want as u64) {
                    return Some(Violation::new("wrong-len", format!("op=len,what={}", target_name(target)), format!("len({}) = {} but the logical length is {}", target_name(target), v, want)));
                }
                None
            }
            POp::TakeView { target } => {
                let (exp, obj) = match (target, Self::object_for(w, target)) {
                    (Target::Enc, Some(ob)) => (Expect::Enc(w.seq.as_ref().unwrap().syms.clone()), ob.clone_ref(py)),
                    (Target::Striped, Some(ob)) => {
                        let s = w.seq.as_ref().unwrap();
                        (Expect::Striped { syms: s.syms.clone(), k: letters(s.protein).len() }, ob.clone_ref(py))
                    }
                    (Target::Pssm, Some(ob)) => (Expect::Pssm(w.motif.as_ref().unwrap().pssm.clone()), ob.clone_ref(py)),
                    (Target::Scores, Some(ob)) => {
                        let s = w.scores.as_ref().unwrap();
                        (Expect::Scores { valid: s.valid.clone(), rows: s.rows }, ob.clone_ref(py))
                    }
                    (Target::Dist, Some(ob)) => (Expect::Dist(w.dist.as_ref().unwrap().1.clone()), ob.clone_ref(py)),
                    _ => return None,
                };
                let key = w.next_view;
                let v = call_json(py, "take_view", (store.clone(), key, obj));
                if let Some(viol) = exc_violation(&v, op, target_name(target)) {
                    return Some(viol);
                }
                if let Some(e) = v.get("exc") {
                    // an ordinary exception (e.g. BufferError on an empty object) is acceptable
                    lmsim::ev!(o.trace, "take_view {} -> {}", target_name(target), e);
                    o.probe("view-export-refused-with-exception");
                    return None;
                }
                w.next_view += 1;
                if let Some((part, detail)) = check_view(&v["ok"], &exp) {
                    return Some(Violation::new("view-mismatch", format!("op=take-view,what={},part={}", target_name(target), part), format!("memoryview({}): {}", target_name(target), detail)));
                }
                w.views.insert(key, (target, exp, false, w.seq_gen));
                None
            }
            POp::ReadView { which } => {
                if w.views.is_empty() {
                    return None;
                }
                let keys: Vec<usize> = w.views.keys().copied().collect();
                let key = keys[which % keys.len()];
                let (target, exp, reused, _gen) = w.views.get(&key).cloned().unwrap();
                if reused {
                    o.probe("view-read-after-object-reused-for-scoring");
                }
                let v = call_json(py, "read_view", (store.clone(), key));
                if let Some(viol) = exc_violation(&v, op, target_name(target)) {
                    return Some(viol);
                }
                if v.get("exc").is_some() {
                    return Some(Violation::new("view-unreadable", format!("op=read-view,what={}", target_name(target)), format!("re-reading a live memoryview({}) raised {}", target_name(target), v)));
                }
                if let Some((part, detail)) = check_view(&v["ok"], &exp) {
                    return Some(Violation::new(
                        "stale-view",
                        format!("op=read-view,what={},part={},after-reuse={}", target_name(target), part, reused),
                        format!("memoryview({}) taken earlier no longer shows the logical contents: {}", target_name(target), detail),
                    ));
                }
                None
            }
            POp::DropView { which } => {
                if w.views.is_empty() {
                    return None;
                }
                let keys: Vec<usize> = w.views.keys().copied().collect();
                let key = keys[which % keys.len()];
                w.views.remove(&key);
                let v = call_json(py, "drop_view", (store.clone(), key));
                exc_violation(&v, op, "view")
            }
            POp::Calculate | POp::Scan { .. } => {
                let (seq, motif) = match (&w.seq, &w.motif) {
                    (Some(s), Some(m)) => (s, m),
                    _ => return None,
                };
                let same = seq.protein == motif.protein;
                let striped = seq.striped.clone_ref(py);
                let pssm = motif.pssm_obj.clone_ref(py);
                let m = motif.pssm.len();
                // does the striped object have to grow, and is one of its buffers exported?
                let grows = same && m > 0 && m - 1 > w.wrap;
                let gen = w.seq_gen;
                let exported = w.views.values().any(|v| v.0 == Target::Striped && v.3 == gen);
                if grows && m > 33 {
                    o.probe("motif-wider-than-spare-rows(matrix-grows)");
                }
                if grows && exported {
                    o.probe("reuse-needing-growth-while-a-view-is-exported");
                }
                let is_buffer_error = |e: &PyErr| e.is_instance_of::<pyo3::exceptions::PyBufferError>(py);
                if let POp::Scan { threshold_bits } = *op {
                    if !same || seq.protein {
                        return None;
                    }
                    let t = f32::from_bits(threshold_bits);
                    let r = sut(|| -> PyResult<usize> {
                        let it = lm.getattr("scan")?.call1((pssm.bind(py), striped.bind(py), t))?;
                        let mut n = 0;
                        for h in it.iter()? {
                            let _ = h?;
                            n += 1;
                        }
                        Ok(n)
                    });
                    return match r {
                        Ok(Ok(_)) => {
                            if grows {
                                w.wrap = m - 1;
                                for (_, v) in w.views.iter_mut() {
                                    if v.0 == Target::Striped && v.3 == gen {
                                        v.2 = true;
                                    }
                                }
                            }
                            None
                        }
                        Ok(Err(e)) if e.is_instance_of::<pyo3::panic::PanicException>(py) => Some(Violation::new("python-panic", "op=scan,what=scan", format!("{:?}: {}", op, e))),
                        Ok(Err(e)) if is_buffer_error(&e) && !(grows && exported) => Some(Violation::new("unexpected-exception", "op=scan,what=scan", format!("scan() raised {} although no buffer of the sequence is exported or no growth is needed", e))),
                        Ok(Err(_)) => None,
                        Err(p) => Some(Violation::new(p.class(), "op=scan", p.msg)),
                    };
                }
                let r = sut(|| pssm.bind(py).call_method1("calculate", (striped.bind(py),)).map(|x| x.unbind()));
                match r {
                    Ok(Ok(obj)) => {
                        if !same {
                            return Some(Violation::new("alphabet-mismatch-accepted", "op=calculate,what=alphabet", "calculate() accepted a sequence of another alphabet".to_string()));
                        }
                        // model: brute-force scores of the valid positions
                        let l = seq.syms.len();
                        let n = if l >= m { l - m + 1 } else { 0 };
                        let mut valid = Vec::with_capacity(n);
                        for i in 0..n {
                            let mut s = 0.0f32;
                            for j in 0..m {
                                s += motif.pssm[j][seq.syms[i + j] as usize];
                            }
                            valid.push(s);
                        }
                        let rows = if n == 0 { 0 } else { (l + 31) / 32 };
                        w.scores = Some(ScoresObj { obj, valid, rows });
                        if grows {
                            w.wrap = m - 1;
                            // views of this striped object taken before now predate a reuse that grew it
                            for (_, v) in w.views.iter_mut() {
                                if v.0 == Target::Striped && v.3 == gen {
                                    v.2 = true;
                                }
                            }
                        }
                        None
                    }
                    Ok(Err(e)) => {
                        if e.is_instance_of::<pyo3::panic::PanicException>(py) {
                            Some(Violation::new("python-panic", "op=calculate,what=calculate", format!("{:?}: {}", op, e)))
                        } else if same && is_buffer_error(&e) && grows && exported {
                            // like bytearray: the object refuses to be re-sized while a buffer is exported
                            o.probe("reuse-refused-while-exported(BufferError)");
                            None
                        } else if same {
                            Some(Violation::new("unexpected-exception", "op=calculate,what=calculate", format!("calculate() raised {}", e)))
                        } else {
                            None
                        }
                    }
                    Err(p) => Some(Violation::new(p.class(), "op=calculate", p.msg)),
                }
            }
            POp::Copy { target } => {
                let obj = match (target, Self::object_for(w, target)) {
                    (Target::Enc, Some(ob)) | (Target::Striped, Some(ob)) => ob.clone_ref(py),
                    _ => return None,
                };
                let r = sut(|| obj.bind(py).call_method0("copy").map(|x| x.unbind()));
                match r {
                    Ok(Ok(c)) => {
                        let s = w.seq.as_mut().unwrap();
                        if target == Target::Enc {
                            s.enc = c;
                        } else {
                            s.striped = c;
                            w.seq_gen += 1;
                        }
                        None
                    }
                    Ok(Err(e)) if e.is_instance_of::<pyo3::panic::PanicException>(py) => Some(Violation::new("python-panic", "op=copy,what=copy", format!("{:?}: {}", op, e))),
                    Ok(Err(e)) => Some(Violation::new("unexpected-exception", "op=copy,what=copy", format!("copy() raised {}", e))),
                    Err(p) => Some(Violation::new(p.class(), "op=copy", p.msg)),
                }
            }
            POp::Drop { target } => {
                let _ = sut(|| match target {
                    Target::Enc | Target::Striped => w.seq = None,
                    Target::Counts | Target::Pwm | Target::Pssm => {
                        w.motif = None;
                        w.dist = None;
                    }
                    Target::Scores => w.scores = None,
                    Target::Dist => w.dist = None,
                });
                let v = call_json(py, "collect", ());
                exc_violation(&v, op, "gc")
            }
            POp::Distribution => {
                let motif = match &w.motif {
                    Some(m) => m,
                    None => return None,
                };
                let pssm = motif.pssm_obj.clone_ref(py);
                let r = sut(|| pssm.bind(py).getattr("score_distribution").map(|x| x.unbind()));
                match r {
                    Ok(Ok(d)) => {
                        w.dist = Some((d, motif.sf.clone()));
                        None
                    }
                    Ok(Err(e)) if e.is_instance_of::<pyo3::panic::PanicException>(py) => Some(Violation::new("python-panic", "op=score_distribution,what=dist", format!("{:?}: {}", op, e))),
                    Ok(Err(_)) => None,
                    Err(p) => Some(Violation::new(p.class(), "op=score_distribution", p.msg)),
                }
            }
        }
    }
}

fn gen_world(r: &mut Prng, idx: u64) -> Sc {
    let alloc = match idx % 6 {
        0 => Policy::System,
        1 | 2 => Policy::ExactPoison,
        3 | 4 => Policy::GuardEnd,
        _ => Policy::GuardStart,
    };
    let n = r.range(4, 22);
    let protein = r.chance(1, 4);
    let mut ops = Vec::with_capacity(n + 2);
    let seq_len = |r: &mut Prng| match r.below(8) {
        0 => 0,
        1 => r.range(1, 31),
        2 => 32 * r.range(1, 10),
        3 => r.range(1000, 1100),
        _ => r.heavy(1, 1500),
    };
    let width = |r: &mut Prng| match r.below(6) {
        0 => 1,
        1 | 2 => r.range(34, 80),
        _ => r.range(2, 33),
    };
    ops.push(POp::NewSeq { len: seq_len(r), seed: r.next_u64(), protein });
    ops.push(POp::NewMotif { width: width(r), n: r.range(1, 12), seed: r.next_u64(), protein });
    let targets = [Target::Enc, Target::Striped, Target::Counts, Target::Pwm, Target::Pssm, Target::Scores, Target::Dist];
    for _ in 0..n {
        ops.push(match r.below(28) {
            24 | 25 => POp::NewPssm { width: width(r), seed: r.next_u64(), bg: r.usize_below(6) },
            26 | 27 => POp::RevComp,
            0 => POp::NewSeq { len: seq_len(r), seed: r.next_u64(), protein: if r.chance(1, 8) { !protein } else { protein } },
            1 | 2 => POp::NewMotif { width: width(r), n: r.range(1, 12), seed: r.next_u64(), protein: if r.chance(1, 8) { !protein } else { protein } },
            3 | 4 | 5 | 6 => POp::Index { target: *r.pick(&[Target::Enc, Target::Counts, Target::Pwm, Target::Pssm, Target::Scores]), index: r.next_u64() as i64 >> 1 },
            7 => POp::Len { target: *r.pick(&[Target::Enc, Target::Counts, Target::Pwm, Target::Pssm, Target::Scores]) },
            8 | 9 | 10 | 11 => POp::TakeView { target: *r.pick(&[Target::Enc, Target::Striped, Target::Striped, Target::Pssm, Target::Scores, Target::Dist]) },
            12 | 13 | 14 | 15 => POp::ReadView { which: r.next_u64() as usize },
            16 => POp::DropView { which: r.next_u64() as usize },
            17 | 18 | 19 => POp::Calculate,
            20 => POp::Scan { threshold_bits: ((r.unit_f64() * 20.0 - 15.0) as f32).to_bits() },
            21 => POp::Copy { target: *r.pick(&[Target::Enc, Target::Striped]) },
            22 => POp::Drop { target: *r.pick(&targets) },
            _ => POp::Distribution,
        });
    }
    // scripted multi-step histories spliced into the random ones: the interesting behaviours need several
    // specific steps in a specific order, which independent random draws almost never produce
    if idx % 3 == 0 {
        let script: Vec<POp> = match (idx / 3) % 4 {
            0 => vec![
                POp::NewPssm { width: width(r), seed: r.next_u64(), bg: r.usize_below(6) },
                POp::Distribution,
                POp::TakeView { target: Target::Dist },
                POp::RevComp,
                POp::Distribution,
                POp::TakeView { target: Target::Dist },
                POp::TakeView { target: Target::Pssm },
                POp::ReadView { which: r.next_u64() as usize },
            ],
            1 => vec![
                POp::NewSeq { len: seq_len(r), seed: r.next_u64(), protein },
                POp::NewMotif { width: r.range(2, 20), n: r.range(1, 6), seed: r.next_u64(), protein },
                POp::Calculate,
                POp::Copy { target: Target::Striped },
                POp::TakeView { target: Target::Striped },
                POp::NewMotif { width: r.range(34, 70), n: r.range(1, 6), seed: r.next_u64(), protein },
                POp::Calculate,
                POp::ReadView { which: r.next_u64() as usize },
                POp::TakeView { target: Target::Scores },
            ],
            2 => vec![
                POp::NewMotif { width: width(r), n: r.range(1, 6), seed: r.next_u64(), protein },
                POp::Distribution,
                POp::RevComp,
                POp::Index { target: Target::Pssm, index: r.next_u64() as i64 >> 1 },
                POp::Distribution,
                POp::TakeView { target: Target::Dist },
            ],
            _ => vec![
                POp::NewSeq { len: seq_len(r), seed: r.next_u64(), protein: false },
                POp::NewPssm { width: r.range(2, 40), seed: r.next_u64(), bg: r.usize_below(6) },
                POp::TakeView { target: Target::Striped },
                POp::Scan { threshold_bits: 0f32.to_bits() },
                POp::ReadView { which: 0 },
                POp::Calculate,
                POp::TakeView { target: Target::Scores },
                POp::Index { target: Target::Scores, index: r.next_u64() as i64 >> 1 },
            ],
        };
        let at = r.usize_below(ops.len() + 1);
        for (k, op) in script.into_iter().enumerate() {
            ops.insert(at + k, op);
        }
    }
    Sc { alloc, ops }
}

impl Sim for PyViewSim {
    type Sc = Sc;
    const NAME: &'static str = "pyview";

    fn plan(_prop: &str, tier: Tier) -> Vec<Phase> {
        match tier {
            Tier::Quick => vec![Phase { name: "histories", count: 12_000, exhaustive: false }],
            Tier::Thorough => vec![Phase { name: "histories", count: 300_000, exhaustive: false }],
        }
    }

    fn generate(_prop: &str, _tier: Tier, _phase: &str, idx: u64, r: &mut Prng) -> Sc {
        gen_world(r, idx)
    }

    fn run(_prop: &str, sc: &Sc, keep_trace: bool) -> Outcome {
        let mut o = Outcome::new(keep_trace);
        PyViewSim::run_inner(sc, &mut o);
        let mut kinds: Vec<&str> = sc.ops.iter().map(op_name).collect();
        kinds.sort();
        kinds.dedup();
        let targets: std::collections::BTreeSet<&str> = sc
            .ops
            .iter()
            .filter_map(|op| match op {
                POp::TakeView { target } | POp::Index { target, .. } => Some(target_name(*target)),
                _ => None,
            })
            .collect();
        o.cov = Some(format!("{}|{}|{}", sc.alloc.as_str(), kinds.join("+"), targets.into_iter().collect::<Vec<_>>().join("+")));
        o
    }

    fn shrink(sc: &Sc) -> Vec<Sc> {
        let mut out = Vec::new();
        let n = sc.ops.len();
        if n > 1 {
            for (a, b) in [(0, n / 2), (n / 2, n)] {
                let mut s = sc.clone();
                s.ops.drain(a..b);
                out.push(s);
            }
            for i in 0..n {
                let mut s = sc.clone();
                s.ops.remove(i);
                out.push(s);
            }
        }
        for (i, op) in sc.ops.iter().enumerate() {
            match *op {
                POp::NewSeq { len, seed, protein } => {
                    for nl in [len / 2, len.saturating_sub(1)] {
                        if nl < len {
                            let mut s = sc.clone();
                            s.ops[i] = POp::NewSeq { len: nl, seed, protein };
                            out.push(s);
                        }
                    }
                }
                POp::NewPssm { width, seed, bg } => {
                    if width > 1 {
                        for nw in [width / 2, width - 1] {
                            let mut s = sc.clone();
                            s.ops[i] = POp::NewPssm { width: nw, seed, bg };
                            out.push(s);
                        }
                    }
                }
                POp::NewMotif { width, n, seed, protein } => {
                    if width > 1 {
                        for nw in [width / 2, width - 1] {
                            let mut s = sc.clone();
                            s.ops[i] = POp::NewMotif { width: nw, n, seed, protein };
                            out.push(s);
                        }
                    }
                    if n > 1 {
                        let mut s = sc.clone();
                        s.ops[i] = POp::NewMotif { width, n: 1, seed, protein };
                        out.push(s);
                    }
                }
                _ => {}
            }
        }
        if sc.alloc != Policy::System && !sc.alloc.is_guard() {
            let mut s = sc.clone();
            s.alloc = Policy::System;
            out.push(s);
        }
        out
    }

    fn size(sc: &Sc) -> BTreeMap<&'static str, u64> {
        let mut m = BTreeMap::new();
        m.insert("ops", sc.ops.len() as u64);
        m
    }

    fn needs_child(sc: &Sc) -> bool {
        sc.alloc.is_guard()
    }

    fn rule(_prop: &str) -> String {
        "Cases: histories of 6..24 operations on Python objects of the lightmotif module inside an embedded CPython: new sequence (EncodedSequence + stripe, lengths 0 / <32 / multiples of 32 / ~1000 / up to 1500, DNA and protein), new motif (create from 1..12 sequences, width 1 / 2..33 / 34..80), explicit ScoringMatrix(values, background=...) with backgrounds in eighths, reverse_complement() (before and after the score distribution was materialised), integer indexing also at -2**63, 2**63-1 and +-2**31 / 2**32, the integer given as an int, as an object implementing __index__ (one index in four) or as a bool, integer indexing aimed at 0, len-1, len, -1, -len, -len-1 and random in-range values on EncodedSequence / CountMatrix / WeightMatrix / ScoringMatrix / StripedScores, len(), memoryview export of EncodedSequence / StripedSequence / ScoringMatrix / StripedScores / ScoreDistribution, re-reading every earlier view, dropping views, calculate() and scan() (which add look-ahead rows to the striped sequence and may reallocate it behind a live view), copy(), drop + gc.collect(); under the system allocator, exact-align+poison (growth always moves, freed memory 0x5A) or guard pages (freed blocks unmapped). Oracle: Python sequence semantics of indexing, logical len, every view's ndim / format / shape and element-by-element contents equal to a logical-content model built on the Rust side from the same inputs, its nbytes equal to shape x itemsize and its tobytes() equal to the packing of exactly those elements (nothing missing, no look-ahead rows, padding or foreign memory behind them) - at export time and at every later read; only Exception subclasses raised, never PanicException. Distinct = distinct tuples (allocator policy, set of operation kinds, set of targets viewed or indexed). Non-trivial = every history (at least two objects are created and used).".to_string()
    }

    fn required_probes(_prop: &str, _tier: Tier) -> Vec<&'static str> {
        vec!["negative-index-used", "motif-wider-than-spare-rows(matrix-grows)"]
    }

    fn components(_prop: &str) -> (Vec<String>, Vec<String>) {
        (
            vec!["lightmotif-py extension module (all pyclasses) inside an embedded CPython 3.11".into(), "lightmotif core".into(), "CPython memoryview / buffer protocol".into()],
            vec!["allocator of the Rust side (SimAlloc); Python's own allocator is real".into()],
        )
    }

    fn assumptions(_prop: &str) -> Vec<String> {
        vec![
            "Logical-content models are built on the Rust side with the core library from the same inputs (CountMatrix::from_sequences, to_freq(0.0).to_weight(None).to_scoring(), to_score_distribution, brute-force f32 scores); float comparisons use a 1e-4 relative band, enough to tell which cell a value came from.".into(),
            "A ScoringMatrix view may be laid out as (symbols, positions) or (positions, symbols); either is accepted as long as every element is the matrix entry it stands for.".into(),
            "A StripedSequence view shows exactly the sequence rows (columns x ceil(L/32)); look-ahead rows added for scoring are internal and must not be visible.".into(),
            "An object that refuses to export a buffer by raising an ordinary exception (e.g. BufferError on an empty matrix) is accepted.".into(),
            "Python's own allocations do not go through the allocator seam; the Rust-side buffers that the views expose do.".into(),
        ]
    }
}
