//! Simulator `pystream`: the Python tier of the stream simulator. `lightmotif.load(file, format=,
//! protein=)` is given a Python file object whose `read(n)` returns at most n bytes according to
//! the transport plan: chunk schedule, structure-aimed cuts, `OSError(EINTR)` bursts, truncation and
//! a sticky failure (an `OSError` with an errno, or an arbitrary exception). Serves the Python
//! slices of C14 (exact oracle against the file model) and C15 (never a PanicException, bounded
//! number of reads).

use std::collections::BTreeMap;

use pyo3::prelude::*;
use pyo3::types::{PyBytes, PyDict, PyList};
use serde_json::Value;

use lmsim::kit::{sut, Outcome, Phase, Prng, Sim, Tier, Violation};
use lmsim::seam::stream::HardKind;
use lmsim::sims::stream::model::{FileModel, Format, Rec};
use lmsim::sims::stream::{Input, Sc, StreamSim};

use crate::py;

pub struct PyStreamSim;

fn fmt_args(f: Format) -> (&'static str, bool) {
    match f {
        Format::Jaspar => ("jaspar", false),
        Format::Jaspar16Dna => ("jaspar16", false),
        Format::Jaspar16Protein => ("jaspar16", true),
        Format::TransfacDna => ("transfac", false),
        Format::TransfacProtein => ("transfac", true),
        Format::UniprobeDna => ("uniprobe", false),
        Format::UniprobeProtein => ("uniprobe", true),
    }
}

fn alphabet_index(format: Format, ch: char) -> usize {
    format.alphabet().chars().position(|c| c == ch).expect("HARNESS: symbol outside alphabet")
}

/// TRANSFAC records with fractional cells make `to_counts()` return None, which the Python loader
/// reports as ValueError by design: keep the Python tier on count data.
fn integerise(model: &mut FileModel) {
    if model.format.family() == "transfac" {
        for rec in model.records.iter_mut() {
            for c in rec.cells.iter_mut() {
                if !c.bytes().all(|b| b.is_ascii_digit()) {
                    // any other spelling (decimal point, exponent): keep the integer part of its value,
                    // capped at 2^24 (TRANSFAC cells are f32: larger integers are not all representable)
                    let v: f64 = c.parse().unwrap_or(0.0);
                    let v = v.trunc().max(0.0).min((1u64 << 24) as f64) as u64;
                    *c = v.to_string();
                }
            }
        }
    }
}

fn hard_errno(k: HardKind) -> i32 {
    match k {
        HardKind::Other => 5,            // EIO
        HardKind::UnexpectedEof => 5,    // EIO
        HardKind::ConnectionReset => 104, // ECONNRESET
        HardKind::TimedOut => 110,       // ETIMEDOUT
        HardKind::InvalidData => 0,      // 0 = raise ValueError instead of OSError
        HardKind::WouldBlock => 11,      // EAGAIN
    }
}

fn expected_counts(format: Format, rec: &Rec) -> Vec<Vec<u64>> {
    let k = format.alphabet().len();
    let mut m = vec![vec![0u64; k]; rec.width];
    for (s, ch) in rec.syms.chars().enumerate() {
        let j = alphabet_index(format, ch);
        for p in 0..rec.width {
            let v = rec.cell(s, p).parse::<u64>().expect("HARNESS: model cell is not an integer");
            // a TRANSFAC record holds f32 cells: a count above 2^24 reaches Python as the correctly rounded
            // f32 of the written integer (generated below 2^31, so it fits the u32 table)
            m[p][j] = if format.family() == "transfac" && v > 1 << 24 {
                rec.cell(s, p).parse::<f32>().expect("HARNESS: model cell is not a float") as u64
            } else {
                v
            };
        }
    }
    m
}

fn expected_weights(format: Format, rec: &Rec) -> Vec<Vec<f64>> {
    let k = format.alphabet().len();
    let bg = 1.0f32 / ((k - 1) as f32);
    let mut m = vec![vec![0f64; k]; rec.width];
    for (s, ch) in rec.syms.chars().enumerate() {
        let j = alphabet_index(format, ch);
        for p in 0..rec.width {
            let f: f32 = rec.cell(s, p).parse().expect("HARNESS: model cell is not a float");
            m[p][j] = if j == k - 1 { 0.0 } else { (f / bg) as f64 };
        }
    }
    m
}

fn num(v: &Value) -> Option<f64> {
    match v {
        Value::Number(n) => n.as_f64(),
        Value::String(s) => s.parse::<f64>().ok(),
        _ => None,
    }
}

fn compare(format: Format, i: usize, rec: &Rec, got: &Value) -> Option<(String, String)> {
    let s = |k: &str| got[k].as_str().map(String::from);
    let mism = |field: &str, want: String, have: String| Some((field.to_string(), format!("motif {}: {} expected {} got {}", i, field, want, have)));
    match format.family() {
        "jaspar" | "jaspar16" => {
            if s("name").as_deref() != Some(rec.id.as_str()) {
                return mism("name", format!("{:?}", rec.id), format!("{}", got["name"]));
            }
            if s("description") != rec.desc {
                return mism("description", format!("{:?}", rec.desc), format!("{}", got["description"]));
            }
        }
        "transfac" => {
            for (field, tag) in [("id", "ID"), ("accession", "AC"), ("name", "NA"), ("description", "DE")] {
                let want = rec.transfac_field(tag);
                if s(field) != want {
                    return mism(field, format!("{:?}", want), format!("{}", got[field]));
                }
            }
        }
        _ => {
            if s("name").as_deref() != Some(rec.id.trim()) {
                return mism("name", format!("{:?}", rec.id), format!("{}", got["name"]));
            }
        }
    }
    if format.family() == "uniprobe" {
        if !got["counts"].is_null() {
            return mism("counts", "None".into(), format!("{}", got["counts"]));
        }
        let want = expected_weights(format, rec);
        let rows = got["pwm"].as_array().cloned().unwrap_or_default();
        if rows.len() != want.len() {
            return mism("rows", want.len().to_string(), rows.len().to_string());
        }
        for (p, wrow) in want.iter().enumerate() {
            let g: Vec<Option<f64>> = rows[p].as_array().map(|a| a.iter().map(num).collect()).unwrap_or_default();
            for (j, w) in wrow.iter().enumerate() {
                let ok = g.get(j).copied().flatten().map(|x| (x - w).abs() <= 1e-5 * (1.0 + w.abs())).unwrap_or(false);
                if !ok {
                    return mism("matrix", format!("weight[{}][{}] = {}", p, j, w), format!("{:?}", g.get(j)));
                }
            }
        }
    } else {
        let want = expected_counts(format, rec);
        let rows = got["counts"].as_array().cloned().unwrap_or_default();
        if rows.len() != want.len() {
            return mism("rows", want.len().to_string(), rows.len().to_string());
        }
        for (p, wrow) in want.iter().enumerate() {
            let g: Vec<Option<u64>> = rows[p].as_array().map(|a| a.iter().map(|x| x.as_u64()).collect()).unwrap_or_default();
            if g.len() != wrow.len() || g.iter().zip(wrow.iter()).any(|(a, b)| *a != Some(*b)) {
                return mism("matrix", format!("counts[{}] = {:?}", p, wrow), format!("{:?}", g));
            }
        }
    }
    None
}

fn tags(format: Format) -> String {
    format!("format={},tier=python", format.family())
}

impl PyStreamSim {
    fn drive(sc: &Sc, data: &[u8], format: Format, o: &mut Outcome) -> Option<Value> {
        let env = py::env();
        Python::with_gil(|py| {
            let helper = env.helper.bind(py);
            let lm = env.lightmotif.bind(py);
            let t = &sc.transport;
            let plan = PyDict::new_bound(py);
            plan.set_item("chunks", PyList::new_bound(py, t.chunks.iter())).unwrap();
            plan.set_item("cuts", PyList::new_bound(py, t.cuts.iter())).unwrap();
            plan.set_item("eintr", PyList::new_bound(py, t.eintr.iter().map(|e| (e.0, e.1)))).unwrap();
            plan.set_item("truncate", t.truncate).unwrap();
            match t.error_at {
                Some((off, kind)) => {
                    plan.set_item("error_at", off).unwrap();
                    plan.set_item("errno", hard_errno(kind)).unwrap();
                }
                None => {
                    plan.set_item("error_at", py.None()).unwrap();
                    plan.set_item("errno", 0).unwrap();
                }
            }
            let (fmt, protein) = fmt_args(format);
            let bytes = PyBytes::new_bound(py, data);
            let r = sut(|| helper.getattr("load_all").and_then(|f| f.call1((lm, bytes, plan, fmt, protein))).and_then(|v| v.extract::<String>()));
            match r {
                Ok(Ok(s)) => serde_json::from_str::<Value>(&s).ok(),
                Ok(Err(e)) => {
                    o.violate(Violation::new("helper-error", tags(format), format!("the Python helper itself raised {}", e)));
                    None
                }
                Err(p) => {
                    o.violate(Violation::new(p.class(), tags(format), p.msg));
                    None
                }
            }
        })
    }

    fn run_inner(prop: &str, sc: &Sc, o: &mut Outcome) {
        let format = sc.input.format();
        let (data, model): (Vec<u8>, Option<&FileModel>) = match &sc.input {
            Input::Model(m) => (m.render(), Some(m)),
            Input::Bytes { data, .. } => (data.0.clone(), None),
            Input::Bundled { path, .. } => (std::fs::read(format!("/repo/{}", path)).expect("HARNESS: bundled file"), None),
        };
        o.probe(match format.family() {
            "jaspar" => "format=jaspar",
            "jaspar16" => "format=jaspar16",
            "transfac" => "format=transfac",
            _ => "format=uniprobe",
        });
        let res = match Self::drive(sc, &data, format, o) {
            Some(v) => v,
            None => return,
        };
        o.steps += res["reads"].as_u64().unwrap_or(0);
        let eintr = res["eintr_fired"].as_u64().unwrap_or(0);
        if eintr > 0 {
            *o.faults.entry("eintr(OSError)").or_insert(0) += eintr;
        }
        if res["hard_fired"].as_u64().unwrap_or(0) > 0 {
            o.fault("exception-from-read()");
        }
        if res["short_reads"].as_u64().unwrap_or(0) > 0 {
            o.probe("short-read-served");
        }
        lmsim::ev!(o.trace, "reads={} motifs={} end={}", res["reads"], res["motifs"].as_array().map(|a| a.len()).unwrap_or(0), res["end"]);
        if res["budget_exceeded"].as_bool().unwrap_or(false) {
            o.violate(Violation::new("no-progress", tags(format), format!("the file object was read {} times for {} bytes", res["reads"], data.len())));
            return;
        }
        let end = &res["end"];
        let panic = end["panic"].as_bool().unwrap_or(false) || end["is_exception"].as_bool() == Some(false);
        if panic {
            o.violate(Violation::new("python-panic", tags(format), format!("load() raised {} ({})", end["exc"], end["msg"])));
            return;
        }
        let motifs = res["motifs"].as_array().cloned().unwrap_or_default();
        if prop == "C15" {
            if end.get("exc").is_some() {
                o.probe("ordinary-exception-raised");
            }
            if !motifs.is_empty() {
                o.probe("motif-returned-from-faulted-input");
            }
            o.cov = Some(format!("py|{}|{}|{}", format.family(), motifs.len().min(3), end["exc"].as_str().unwrap_or("end")));
            return;
        }
        // C14: exact equality with the model
        let model = match model {
            Some(m) => m,
            None => return,
        };
        if let Some(exc) = end.get("exc") {
            o.violate(Violation::new("error-on-wellformed", tags(format), format!("after {} of {} motifs load() raised {} ({})", motifs.len(), model.records.len(), exc, end["msg"])));
            return;
        }
        for (i, rec) in model.records.iter().enumerate() {
            match motifs.get(i) {
                None => {
                    o.violate(Violation::new("missing-record", tags(format), format!("load() ended after {} of {} motifs", motifs.len(), model.records.len())));
                    return;
                }
                Some(g) => {
                    if let Some((field, detail)) = compare(format, i, rec, g) {
                        o.violate(Violation::new("record-mismatch", format!("{},field={}", tags(format), field), detail));
                        return;
                    }
                }
            }
        }
        if motifs.len() > model.records.len() {
            o.violate(Violation::new("extra-item", tags(format), format!("load() returned {} motifs for {} records", motifs.len(), model.records.len())));
            return;
        }
        if model.records.len() >= 2 && res["short_reads"].as_u64().unwrap_or(0) > 0 {
            o.cov = Some(format!("py|{}|eintr={}|chunks={}", format.as_str(), (eintr > 0) as u8, sc.transport.chunks.len().min(3)));
        }
    }
}

impl Sim for PyStreamSim {
    type Sc = Sc;
    const NAME: &'static str = "pystream";

    fn plan(prop: &str, tier: Tier) -> Vec<Phase> {
        match (prop, tier) {
            ("C14", Tier::Quick) => vec![Phase { name: "generated", count: 12_000, exhaustive: false }],
            ("C14", Tier::Thorough) => vec![Phase { name: "generated", count: 300_000, exhaustive: false }],
            ("C15", Tier::Quick) => vec![
                Phase { name: "single-faults-sampled", count: 40_000, exhaustive: false },
                Phase { name: "multi-faults", count: 10_000, exhaustive: false },
            ],
            (_, _) => vec![
                Phase { name: "single-faults-sampled", count: 1_000_000, exhaustive: false },
                Phase { name: "multi-faults", count: 200_000, exhaustive: false },
            ],
        }
    }

    fn generate(prop: &str, tier: Tier, phase: &str, idx: u64, r: &mut Prng) -> Sc {
        match (prop, phase) {
            ("C14", _) => {
                let mut sc = StreamSim::generate("C14", tier, "generated", idx, r);
                if let Input::Model(m) = &mut sc.input {
                    integerise(m);
                    // keep files moderate: the JSON round trip of every motif dominates the cost
                    m.records.truncate(40);
                }
                // cuts were computed on the original text; recompute against the final one
                if let Input::Model(m) = &sc.input {
                    let text = m.render();
                    let offs = lmsim::sims::stream::gen::delimiter_offsets(&text);
                    sc.transport.cuts = sc.transport.cuts.iter().filter_map(|_| if offs.is_empty() { None } else { Some(*r.pick(&offs)) }).collect();
                    sc.transport.cuts.sort_unstable();
                    sc.transport.cuts.dedup();
                }
                sc.transport.truncate = None;
                sc.transport.error_at = None;
                sc
            }
            (_, "single-faults-sampled") => {
                let plan = StreamSim::plan("C15", Tier::Quick);
                let n = plan[0].count;
                let pick = r.below(n);
                let mut sub = Prng::new(r.next_u64());
                StreamSim::generate("C15", Tier::Quick, "single-faults", pick, &mut sub)
            }
            _ => StreamSim::generate("C15", Tier::Quick, "multi-faults", idx, r),
        }
    }

    fn run(prop: &str, sc: &Sc, keep_trace: bool) -> Outcome {
        let mut o = Outcome::new(keep_trace);
        PyStreamSim::run_inner(prop, sc, &mut o);
        o
    }

    fn shrink(sc: &Sc) -> Vec<Sc> {
        StreamSim::shrink(sc)
    }

    fn size(sc: &Sc) -> BTreeMap<&'static str, u64> {
        StreamSim::size(sc)
    }

    fn rule(prop: &str) -> String {
        match prop {
            "C14" => "Python tier. Cases: the well-formed files of the stream simulator (count data only for TRANSFAC, at most 40 records) given to lightmotif.load() as a Python file object whose read(n) returns at most n bytes per a chunk schedule with structure-aimed cuts and OSError(EINTR) bursts. Oracle: the list of motifs equals the file model (name / id / accession / description; every count, or every weight for UniPROBE). Distinct = (format, EINTR yes/no, chunk-schedule class). Non-trivial = at least two records and at least one short read served.".to_string(),
            _ => "Python tier. Cases: single faults sampled from the enumerated corpus of the stream simulator and multi-fault inputs, delivered through a Python file object (short reads, OSError(EINTR), a sticky OSError with an errno or a ValueError raised by read()). Oracle: only Exception subclasses are raised, never pyo3's PanicException, and the number of read() calls stays within budget. Distinct = (format family, motifs returned capped at 3, exception type or end). Non-trivial = every run.".to_string(),
        }
    }

    fn required_probes(prop: &str, _tier: Tier) -> Vec<&'static str> {
        match prop {
            "C14" => vec!["short-read-served"],
            _ => vec!["ordinary-exception-raised", "motif-returned-from-faulted-input"],
        }
    }

    fn level(prop: &str) -> &'static str {
        StreamSim::level(prop)
    }

    fn components(_prop: &str) -> (Vec<String>, Vec<String>) {
        (
            vec!["lightmotif-py (Loader, PyFileRead, motif conversion) inside an embedded CPython 3.11".into(), "lightmotif-io readers".into(), "std::io::BufReader".into()],
            vec!["Python file object (SimFile.read)".into()],
        )
    }

    fn assumptions(prop: &str) -> Vec<String> {
        let mut v = StreamSim::assumptions(prop);
        v.push("Python tier: the file object honours the file protocol (never returns more than n bytes); TRANSFAC cells are integers because fractional matrices are rejected by design (ValueError: invalid count matrix).".into());
        v
    }
}
