//! Simulator `pyscan`: the Python tier of the scan simulator. `lightmotif.scan(pssm, sequence,
//! threshold=, block_size=)` is iterated to exhaustion inside the embedded CPython, on a simulated
//! host CPU, and the hits are compared with the brute-force score table. Serves the Python slice of
//! C02 (the Python Scanner has no best-hit entry point, so C03 has no Python tier).

use std::collections::{BTreeMap, BTreeSet};

use pyo3::prelude::*;
use pyo3::types::{PyDict, PyList};
use serde_json::Value;

use lmsim::kit::{sut, Outcome, Phase, Prng, Sim, Tier, Violation};
use lmsim::seam::alloc::{self, Policy};
use lmsim::seam::cpu;
use lmsim::sims::scan::{self, MatrixSpec, Sc, ScanSim, Then};

use crate::py;

pub struct PyScanSim;

impl PyScanSim {
    fn run_inner(sc: &Sc, o: &mut Outcome) {
        let env = py::env();
        o.probe(match sc.host {
            cpu::Host::Generic => "host=generic",
            cpu::Host::Sse2 => "host=sse2",
            cpu::Host::Avx2 => "host=avx2",
        });
        let seq = sc.seq.as_bytes();
        let l = seq.len();
        let m = sc.matrix.width();
        // matrix values through the same library conversions as the Rust tier
        let rows: Vec<[f32; 5]> = match sut(|| scan::build_pssm(&sc.matrix).matrix().iter().map(|r| [r[0], r[1], r[2], r[3], r[4]]).collect::<Vec<_>>()) {
            Ok(r) => r,
            Err(p) => {
                o.violate(Violation::new(p.class(), "tier=python,setup", p.msg));
                return;
            }
        };
        let table = scan::score_table(&rows, seq);
        let t = scan::resolve_threshold(sc.threshold, &table, &rows);
        let n_pos = table.f32s.len();
        let exact = matches!(sc.matrix, MatrixSpec::Direct { exact: true, .. });
        let tags = format!(
            "host={},tier=python{}{}",
            sc.host.as_str(),
            if l < m { ",L<M" } else { "" },
            match (sc.py_pre_width.is_some(), sc.py_copy) {
                (false, false) => "",
                (true, false) => ",seq=scored-before",
                (false, true) => ",seq=copy",
                (true, true) => ",seq=copy-of-scored",
            }
        );
        alloc::begin_run(sc.alloc);
        fn make_values<'py>(py: Python<'py>, rows: &[[f32; 5]]) -> Bound<'py, PyDict> {
            let values = PyDict::new_bound(py);
            for (j, sym) in ["A", "C", "T", "G", "N"].iter().enumerate() {
                let col = PyList::new_bound(py, rows.iter().map(|r| r[j] as f64));
                values.set_item(sym, col).unwrap();
            }
            values
        }
        let res: Option<Value> = Python::with_gil(|py| {
            let helper = env.helper.bind(py);
            let lm = env.lightmotif.bind(py);
            let values = make_values(py, &rows);
            let r = sut(|| {
                cpu::with_host(sc.host, || {
                    helper
                        .getattr("do_scan")
                        .and_then(|f| f.call1((lm, values, sc.seq.as_str(), t as f64, sc.block_size, sc.py_poke_width.unwrap_or(0), sc.py_pre_width.unwrap_or(0), sc.py_copy)))
                        .and_then(|v| v.extract::<String>())
                })
            });
            match r {
                Ok(Ok(s)) => serde_json::from_str::<Value>(&s).ok(),
                Ok(Err(e)) => {
                    o.violate(Violation::new("helper-error", tags.clone(), format!("the Python helper itself raised {}", e)));
                    None
                }
                Err(p) => {
                    o.violate(Violation::new(p.class(), tags.clone(), p.msg));
                    None
                }
            }
        });
        alloc::end_run();
        let res = match res {
            Some(r) => r,
            None => return,
        };
        if let Some(exc) = res.get("exc") {
            let panic = res["panic"].as_bool().unwrap_or(false);
            o.violate(Violation::new(
                if panic { "python-panic" } else { "unexpected-exception" },
                tags,
                format!("lightmotif.scan raised {} ({}) for L={} M={} block_size={} threshold={:e}", exc, res["msg"], l, m, sc.block_size, t),
            ));
            return;
        }
        let hits = res["ok"]["hits"].as_array().cloned().unwrap_or_default();
        o.steps += hits.len() as u64 + 1;
        if res["ok"]["overflow"].as_bool().unwrap_or(false) {
            o.violate(Violation::new("no-progress", tags, format!("the scanner yielded more than {} hits for {} positions", hits.len(), n_pos)));
            return;
        }
        let band = |i: usize| -> bool { !exact && (table.f64s[i] - t as f64).abs() <= table.tol[i] };
        let mut seen: BTreeSet<usize> = BTreeSet::new();
        let mut scores_bit_exact = true;
        for h in &hits {
            let pos = h[0].as_u64().unwrap_or(u64::MAX) as usize;
            let score: f64 = h[1].as_str().and_then(|s| s.parse().ok()).unwrap_or(f64::NAN);
            if pos >= n_pos {
                o.violate(Violation::new("out-of-range-hit", tags, format!("hit at position {} but the last valid position is {:?} (L={}, M={})", pos, n_pos.checked_sub(1), l, m)));
                return;
            }
            if !seen.insert(pos) {
                o.violate(Violation::new("duplicate-hit", tags, format!("position {} returned twice", pos)));
                return;
            }
            let want = table.f32s[pos];
            if score != want as f64 {
                if exact || (score - table.f64s[pos]).abs() > table.tol[pos] {
                    o.violate(Violation::new("wrong-score", tags, format!("position {}: score {:e} but the definition gives {:e}", pos, score, want)));
                    return;
                }
                scores_bit_exact = false;
                o.tolerated += 1;
            }
            if !(want >= t) {
                if band(pos) {
                    o.tolerated += 1;
                } else {
                    o.violate(Violation::new("spurious-hit", tags, format!("position {} has score {:e} < threshold {:e}", pos, want, t)));
                    return;
                }
            }
        }
        let mut expected = 0;
        let mut ties: Vec<usize> = Vec::new();
        for i in 0..n_pos {
            if table.f32s[i] >= t {
                expected += 1;
                if !seen.contains(&i) {
                    if band(i) {
                        o.tolerated += 1;
                        if ties.len() < 16 {
                            ties.push(i);
                        }
                        continue;
                    }
                    o.violate(Violation::new(
                        "missing-hit",
                        tags,
                        format!("position {} scores {:e} >= threshold {:e} but was never returned ({} hits seen)", i, table.f32s[i], t, seen.len()),
                    ));
                    return;
                }
            }
        }
        // Ties with the threshold are don't-care because another summation order could decide them
        // differently - unless the library's own full scoring gives exactly the reference value there and
        // the scanner demonstrably reports those very values (>= 1 hit, all bit-for-bit): see sims/scan.rs.
        if !ties.is_empty() && !seen.is_empty() && scores_bit_exact {
            let lib: Option<Vec<f64>> = Python::with_gil(|py| {
                let helper = env.helper.bind(py);
                let lm = env.lightmotif.bind(py);
                let values = make_values(py, &rows);
                let r = sut(|| {
                    cpu::with_host(sc.host, || {
                        helper
                            .getattr("lib_scores")
                            .and_then(|f| f.call1((lm, values, sc.seq.as_str(), ties.clone())))
                            .and_then(|v| v.extract::<String>())
                    })
                });
                match r {
                    Ok(Ok(s)) => serde_json::from_str::<Value>(&s)
                        .ok()
                        .and_then(|v| v["ok"].as_array().map(|a| a.iter().map(|x| x.as_str().and_then(|s| s.parse().ok()).unwrap_or(f64::NAN)).collect())),
                    _ => None,
                }
            });
            if let Some(lib) = lib {
                for (k, &i) in ties.iter().enumerate() {
                    if lib.get(k).copied() == Some(table.f32s[i] as f64) {
                        o.violate(Violation::new(
                            "missing-hit",
                            format!("{},tie", tags),
                            format!(
                                "position {} scores {:e} >= threshold {:e} but was never returned ({} hits seen); the score ties with the threshold within rounding, but ScoringMatrix.calculate of this tree gives exactly this value and every returned hit carried the reference value",
                                i,
                                table.f32s[i],
                                t,
                                seen.len()
                            ),
                        ));
                        return;
                    }
                }
            }
        }
        lmsim::ev!(o.trace, "L={} M={} B={} t={:e} hits={}", l, m, sc.block_size, t, hits.len());
        if expected > 0 || l < m {
            let rows_n = (l + 31) / 32;
            let b = sc.block_size.max(1);
            o.cov = Some(format!(
                "py|{}|{}|{}",
                sc.host.as_str(),
                if b == 1 { "B=1" } else if b < rows_n { "B<R" } else if b == rows_n { "B=R" } else { "B>R" },
                if l < m { "L<M" } else if l % 32 == 0 { "L%32=0" } else { "other" }
            ));
        }
    }
}

impl Sim for PyScanSim {
    type Sc = Sc;
    const NAME: &'static str = "pyscan";

    fn plan(_prop: &str, tier: Tier) -> Vec<Phase> {
        match tier {
            Tier::Quick => vec![Phase { name: "worlds", count: 30_000, exhaustive: false }],
            Tier::Thorough => vec![Phase { name: "worlds", count: 800_000, exhaustive: false }],
        }
    }

    fn generate(_prop: &str, _tier: Tier, _phase: &str, idx: u64, r: &mut Prng) -> Sc {
        let mut sc = scan::gen_world(r, idx, "C02", None);
        // the Python tier drains the iterator; keep sequences moderate (every hit crosses the FFI boundary)
        if sc.seq.len() > 6000 {
            sc.seq.truncate(6000);
        }
        sc.nexts = 0;
        sc.then = Then::Drain;
        sc.drain = scan::Drain::Next;
        sc.alloc = match idx % 5 {
            0 | 1 => Policy::System,
            2 => Policy::ExactPoison,
            3 => Policy::GuardEnd,
            _ => Policy::GuardStart,
        };
        if idx % 3 == 0 {
            sc.py_poke_width = Some(r.range(2, 90));
        }
        sc.own_buffer = false;
        sc.spare_width = 0;
        // provenance of the sequence object: fresh, already scored with another (narrower / wider) motif,
        // or a copy() of such an object
        match idx % 7 {
            1 | 4 => sc.py_pre_width = Some(r.range(2, 90)),
            2 | 5 => {
                sc.py_pre_width = Some(r.range(2, 90));
                sc.py_copy = true;
            }
            6 => sc.py_copy = true,
            _ => {}
        }
        sc
    }

    fn run(_prop: &str, sc: &Sc, keep_trace: bool) -> Outcome {
        let mut o = Outcome::new(keep_trace);
        PyScanSim::run_inner(sc, &mut o);
        o
    }

    fn shrink(sc: &Sc) -> Vec<Sc> {
        let mut v: Vec<Sc> = ScanSim::shrink(sc).into_iter().filter(|s| s.then == Then::Drain && s.nexts == 0 && s.alloc == sc.alloc).collect();
        let (pre, copy) = (sc.py_pre_width, sc.py_copy);
        for s in v.iter_mut() {
            s.py_pre_width = pre;
            s.py_copy = copy;
        }
        if sc.py_poke_width.is_some() {
            let mut s = sc.clone();
            s.py_poke_width = None;
            v.insert(0, s);
        }
        if sc.py_copy {
            let mut s = sc.clone();
            s.py_copy = false;
            v.insert(0, s);
        }
        if sc.py_pre_width.is_some() {
            let mut s = sc.clone();
            s.py_pre_width = None;
            v.insert(0, s);
        }
        v
    }

    fn size(sc: &Sc) -> BTreeMap<&'static str, u64> {
        ScanSim::size(sc)
    }

    fn needs_child(sc: &Sc) -> bool {
        sc.alloc.is_guard()
    }

    fn death_tags(sc: &Sc) -> String {
        format!("tier=python,poke={},pre={},copy={}", sc.py_poke_width.is_some(), sc.py_pre_width.is_some(), sc.py_copy)
    }

    fn rule(_prop: &str) -> String {
        "Python tier. Cases: the worlds of the scan simulator (sequence, matrix, threshold class, block-size class, simulated host CPU; sequences capped at 6 000 symbols) given to lightmotif.ScoringMatrix / lightmotif.stripe / lightmotif.scan(pssm, sequence, threshold=, block_size=) inside the embedded CPython and iterated to exhaustion; in one world in three the same striped sequence is scored with another, possibly much wider motif after the first hit (re-sizing its matrix under the live scanner); system, poisoning and guard-page allocators. Oracle: as C02 (in range, exactly once, exact score, >= threshold, none missing), and only ordinary exceptions. Distinct = (host, block-size class, length class). Non-trivial = at least one expected hit or L < M.".to_string()
    }

    fn required_probes(_prop: &str, _tier: Tier) -> Vec<&'static str> {
        vec!["host=generic", "host=sse2"]
    }

    fn assumptions(prop: &str) -> Vec<String> {
        let mut v = ScanSim::assumptions(prop);
        v.push("Python tier: matrix values cross the boundary as Python floats (exact for f32), the threshold as a Python float of the f32 value.".into());
        v
    }

    fn components(_prop: &str) -> (Vec<String>, Vec<String>) {
        (
            vec!["lightmotif-py (ScoringMatrix, stripe, scan, Scanner, Hit) inside an embedded CPython 3.11".into(), "lightmotif::scan::Scanner and the kernels of the simulated host".into()],
            vec!["CPU probe (verif-hooks override)".into()],
        )
    }
}
