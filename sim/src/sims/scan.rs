//! Simulator `scan`: the block scanner (`lightmotif::scan::Scanner`) in a simulated world made of
//! a host CPU profile, a block-size knob, an allocator policy and a caller program (next / max /
//! drop interleaving). Serves C02 (exhaustive iteration) and C03 (best hit).

use std::collections::{BTreeMap, BTreeSet};

use serde::{Deserialize, Serialize};

use lightmotif::abc::{Background, Dna, Nucleotide};
use lightmotif::dense::DenseMatrix;
use lightmotif::num::U5;
use lightmotif::pwm::{CountMatrix, ScoringMatrix};
use lightmotif::scan::Scanner;
use lightmotif::scores::StripedScores;
use lightmotif::seq::{EncodedSequence, StripedSequence};

use crate::kit::{sut, Outcome, Panicked, Phase, Prng, Sim, Tier, Violation};
use crate::seam::alloc::{self, Policy};
use crate::seam::cpu::{self, Host};

// --- scenario ----------------------------------------------------------------------------------

#[derive(Clone, Debug, Serialize, Deserialize, PartialEq)]
pub enum MatrixSpec {
    /// Log-odds given directly: rows of 5 f32 bit patterns in library column order A, C, T, G, N.
    Direct { rows: Vec<[u32; 5]>, exact: bool },
    /// Built through the library's own conversions: counts (A, C, T, G), pseudocount, background.
    Counts {
        counts: Vec<[u32; 4]>,
        pseudo_bits: u32,
        /// Background frequencies A, C, T, G, N as f32 bits (None = uniform, wildcard 0).
        background: Option<[u32; 5]>,
    },
}

impl MatrixSpec {
    pub fn width(&self) -> usize {
        match self {
            MatrixSpec::Direct { rows, .. } => rows.len(),
            MatrixSpec::Counts { counts, .. } => counts.len(),
        }
    }
}

#[derive(Clone, Copy, Debug, Serialize, Deserialize, PartialEq)]
pub enum ThresholdSpec {
    /// Explicit value (f32 bits).
    Value(u32),
    NegInf,
    /// Exactly the k-th highest attained finite score (0 = maximum).
    AtRank(usize),
    /// Midway between the k-th and (k+1)-th highest distinct attained scores.
    BetweenRanks(usize),
    /// Below the minimum attainable score of the matrix.
    BelowMin,
    /// Above every attained score.
    AboveMax,
}

#[derive(Clone, Copy, Debug, Serialize, Deserialize, PartialEq)]
pub enum Then {
    Drain,
    Max,
    Drop,
}

/// How the caller drives the iterator to exhaustion (after the `nexts` explicit calls): the property speaks
/// of "iterating to exhaustion", which a caller does with a loop or with any consuming adaptor.
#[derive(Clone, Copy, Debug, Serialize, Deserialize, PartialEq, Default)]
pub enum Drain {
    /// `while let Some(hit) = scanner.next()`
    #[default]
    Next,
    /// `scanner.for_each(..)` (internal iteration: `Iterator::fold`)
    ForEach,
    /// `scanner.collect::<Vec<_>>()` (`size_hint` + `next` / `extend`)
    Collect,
    /// `scanner.count()`: only the number of hits is observable
    Count,
    /// `scanner.last()`: only one hit is observable
    Last,
    /// `scanner.nth(k)` (skips k hits), then a `next()` loop
    Nth(usize),
}

#[derive(Clone, Debug, Serialize, Deserialize, PartialEq)]
pub struct Sc {
    /// DNA text over ACGTN.
    pub seq: String,
    pub matrix: MatrixSpec,
    pub threshold: ThresholdSpec,
    pub block_size: usize,
    pub host: Host,
    pub alloc: Policy,
    /// The striped sequence is first configured for a motif this wide (0 = not), so that the
    /// number of look-ahead rows can exceed M-1.
    pub spare_width: usize,
    /// Give the scanner a caller-supplied score buffer.
    pub own_buffer: bool,
    /// Caller program: `nexts` calls of next(), then drain / max / drop.
    pub nexts: usize,
    pub then: Then,
    /// Caller program extension: after the next() calls and before max(), raise the threshold to
    /// max(old, this). (Only raising is well defined: every unconsumed position at or above the new
    /// threshold is then either still buffered or in a block not yet scanned.)
    #[serde(default)]
    pub raise_before_max: Option<ThresholdSpec>,
    /// Python tier only: after the first hit, score the same striped sequence with another motif of this
    /// width (which may re-size the sequence's matrix under the live scanner), then keep iterating.
    #[serde(default)]
    pub py_poke_width: Option<usize>,
    /// Style of the drain step (only with `then == Drain`).
    #[serde(default)]
    pub drain: Drain,
    /// Python tier only: provenance of the sequence object. Before the scan the striped sequence is scored
    /// with another motif of this width (so it already carries look-ahead rows), and, if `py_copy`, the scan
    /// runs on `striped.copy()` of that object.
    #[serde(default)]
    pub py_pre_width: Option<usize>,
    #[serde(default)]
    pub py_copy: bool,
}

// --- reference model ---------------------------------------------------------------------------

fn sym_index(c: u8) -> usize {
    match c {
        b'A' => 0,
        b'C' => 1,
        b'T' => 2,
        b'G' => 3,
        _ => 4,
    }
}

pub struct Table {
    pub f32s: Vec<f32>,
    pub f64s: Vec<f64>,
    pub tol: Vec<f64>,
}

/// Brute-force scalar score table from the matrix values the library actually holds.
pub fn score_table(rows: &[[f32; 5]], seq: &[u8]) -> Table {
    let m = rows.len();
    let l = seq.len();
    let n = if l >= m && m > 0 { l - m + 1 } else { 0 };
    let mut t = Table {
        f32s: Vec::with_capacity(n),
        f64s: Vec::with_capacity(n),
        tol: Vec::with_capacity(n),
    };
    for i in 0..n {
        let mut s32 = 0.0f32;
        let mut s64 = 0.0f64;
        let mut abs = 0.0f64;
        let mut neg_inf = false;
        for j in 0..m {
            let x = rows[j][sym_index(seq[i + j])];
            s32 += x;
            if x == f32::NEG_INFINITY {
                neg_inf = true;
            } else {
                s64 += x as f64;
                abs += (x as f64).abs();
            }
        }
        if neg_inf {
            t.f32s.push(f32::NEG_INFINITY);
            t.f64s.push(f64::NEG_INFINITY);
            t.tol.push(0.0);
        } else {
            t.f32s.push(s32);
            t.f64s.push(s64);
            t.tol.push(2.0 * m as f64 * (2.0f64).powi(-24) * abs);
        }
    }
    t
}

pub fn resolve_threshold(spec: ThresholdSpec, table: &Table, rows: &[[f32; 5]]) -> f32 {
    let mut finite: Vec<f32> = table.f32s.iter().copied().filter(|x| x.is_finite()).collect();
    finite.sort_by(|a, b| b.partial_cmp(a).unwrap());
    finite.dedup();
    let min_attainable: f32 = rows
        .iter()
        .map(|r| r[..4].iter().copied().fold(f32::INFINITY, f32::min))
        .sum();
    match spec {
        ThresholdSpec::Value(b) => f32::from_bits(b),
        ThresholdSpec::NegInf => f32::NEG_INFINITY,
        ThresholdSpec::AtRank(k) => {
            if finite.is_empty() {
                0.0
            } else {
                finite[k.min(finite.len() - 1)]
            }
        }
        ThresholdSpec::BetweenRanks(k) => {
            if finite.len() < 2 {
                finite.first().map(|x| x - 0.5).unwrap_or(0.0)
            } else {
                let k = k.min(finite.len() - 2);
                let mid = (finite[k] as f64 + finite[k + 1] as f64) / 2.0;
                mid as f32
            }
        }
        ThresholdSpec::BelowMin => {
            if min_attainable.is_finite() {
                min_attainable - 1.0 - min_attainable.abs() * 0.01
            } else {
                -1.0e30
            }
        }
        ThresholdSpec::AboveMax => finite.first().map(|x| x + 1.0 + x.abs() * 0.01).unwrap_or(1.0e30),
    }
}

// --- generator ---------------------------------------------------------------------------------

fn gen_matrix(r: &mut Prng, m: usize, class: u64) -> MatrixSpec {
    match class % 6 {
        5 => {
            // two-valued match / mismatch matrices (one preferred base per row): every cell is an exact
            // multiple of range/255 when the width divides 255, so the discretisation has no rounding slack
            // pairs whose sums are exact in f32 (compared strictly) and pairs whose sums are not (tolerance band)
            let exact_pair = r.chance(2, 3);
            let (hi, lo) = if exact_pair {
                *r.pick(&[(1.0f32, -0.5f32), (1.0, -1.0), (2.0, -1.0), (0.5, -0.25), (1.0, 0.0), (3.0, -2.0), (0.75, -0.25), (1.5, -0.5), (4.0, -1.0), (1.0, -0.25)])
            } else {
                *r.pick(&[(1.0f32, -0.4f32), (0.7, -0.3), (1.1, -0.1), (2.0, -0.6)])
            };
            let wild = *r.pick(&[f32::NEG_INFINITY, 0.0, lo, hi, lo - 1.0]);
            let rows = (0..m)
                .map(|_| {
                    let mut row = [lo.to_bits(); 5];
                    row[r.usize_below(4)] = hi.to_bits();
                    row[4] = wild.to_bits();
                    row
                })
                .collect();
            MatrixSpec::Direct { rows, exact: exact_pair }
        }
        0 | 1 => {
            // library conversions from counts
            let n = r.range(1, 60) as u32;
            let counts = (0..m)
                .map(|_| {
                    let mut c = [0u32; 4];
                    if r.chance(1, 3) {
                        c[r.usize_below(4)] = n; // conserved position
                    } else {
                        for _ in 0..n {
                            c[r.usize_below(4)] += 1;
                        }
                    }
                    c
                })
                .collect();
            let pseudo = *r.pick(&[0.1f32, 0.25, 0.5, 1.0, 0.01]);
            let background = if class % 5 == 1 {
                // wildcard gets non-zero frequency: finite wildcard column. Frequencies are
                // multiples of 1/64 so that they sum to exactly 1.0 in f32 (Background::new demands it).
                let mut cuts: Vec<u32> = Vec::new();
                while cuts.len() < 4 {
                    let c = r.range(1, 63) as u32;
                    if !cuts.contains(&c) {
                        cuts.push(c);
                    }
                }
                cuts.sort_unstable();
                let parts = [cuts[0], cuts[1] - cuts[0], cuts[2] - cuts[1], cuts[3] - cuts[2], 64 - cuts[3]];
                let mut f = [0u32; 5];
                for i in 0..5 {
                    f[i] = (parts[i] as f32 / 64.0).to_bits();
                }
                Some(f)
            } else {
                None
            };
            MatrixSpec::Counts {
                counts,
                pseudo_bits: pseudo.to_bits(),
                background,
            }
        }
        2 => {
            // exact-arithmetic class: entries k/8, |k| <= 80
            let wild_inf = r.chance(1, 2);
            let rows = (0..m)
                .map(|_| {
                    let mut row = [0u32; 5];
                    let mut mn = f32::INFINITY;
                    for j in 0..4 {
                        let k = r.range(0, 160) as i32 - 80;
                        let v = k as f32 / 8.0;
                        mn = mn.min(v);
                        row[j] = v.to_bits();
                    }
                    // wildcard: -inf, or any finite value from below the row minimum to above the row maximum
                    row[4] = if wild_inf { f32::NEG_INFINITY.to_bits() } else { (mn + (r.range(0, 200) as f32 - 16.0) / 8.0).to_bits() };
                    row
                })
                .collect();
            MatrixSpec::Direct { rows, exact: true }
        }
        3 => {
            // random finite log-odds-like values
            let wild_inf = r.chance(2, 3);
            let rows = (0..m)
                .map(|_| {
                    let mut row = [0u32; 5];
                    let mut mn = f32::INFINITY;
                    for j in 0..4 {
                        let v = (r.unit_f64() * 11.0 - 8.0) as f32;
                        mn = mn.min(v);
                        row[j] = v.to_bits();
                    }
                    row[4] = if wild_inf { f32::NEG_INFINITY.to_bits() } else { (mn + (r.unit_f64() * 14.0 - 1.0) as f32).to_bits() };
                    row
                })
                .collect();
            MatrixSpec::Direct { rows, exact: false }
        }
        _ => {
            // degenerate: constant rows (factor 0) or a single informative row
            let informative = r.usize_below(m + 1);
            let rows = (0..m)
                .map(|i| {
                    let c = (r.range(0, 16) as f32) / 8.0 - 1.0;
                    let mut row = [c.to_bits(); 5];
                    if i == informative {
                        row[r.usize_below(4)] = (c + 2.0).to_bits();
                    }
                    row[4] = f32::NEG_INFINITY.to_bits();
                    row
                })
                .collect();
            MatrixSpec::Direct { rows, exact: true }
        }
    }
}

fn consensus_word(spec: &MatrixSpec) -> Vec<u8> {
    let letters = [b'A', b'C', b'T', b'G'];
    match spec {
        MatrixSpec::Direct { rows, .. } => rows
            .iter()
            .map(|r| {
                let mut best = 0;
                for j in 1..4 {
                    if f32::from_bits(r[j]) > f32::from_bits(r[best]) {
                        best = j;
                    }
                }
                letters[best]
            })
            .collect(),
        MatrixSpec::Counts { counts, .. } => counts
            .iter()
            .map(|c| {
                let mut best = 0;
                for j in 1..4 {
                    if c[j] > c[best] {
                        best = j;
                    }
                }
                letters[best]
            })
            .collect(),
    }
}

fn gen_seq(r: &mut Prng, l: usize, spec: &MatrixSpec, class: u64) -> String {
    let mut s = Vec::with_capacity(l);
    let letters = [b'A', b'C', b'G', b'T'];
    match class % 4 {
        0 => {
            for _ in 0..l {
                s.push(*r.pick(&letters));
            }
        }
        1 => {
            // skewed composition
            let w = [r.range(1, 10) as u32, r.range(1, 10) as u32, r.range(1, 4) as u32, r.range(1, 4) as u32];
            for _ in 0..l {
                s.push(letters[r.weighted(&w)]);
            }
        }
        2 => {
            // wildcard runs
            for _ in 0..l {
                s.push(*r.pick(&letters));
            }
            let runs = r.range(1, 4);
            for _ in 0..runs {
                if l == 0 {
                    break;
                }
                let at = r.usize_below(l);
                let len = r.heavy(1, 40);
                for k in at..(at + len).min(l) {
                    s[k] = b'N';
                }
            }
        }
        _ => {
            for _ in 0..l {
                s.push(*r.pick(&letters));
            }
        }
    }
    // plant consensus and near-consensus words (so that 8-bit sums approach and exceed 255 and
    // several positions have near-equal scores)
    let cons = consensus_word(spec);
    let m = cons.len();
    if m > 0 && l >= m && class % 4 != 0 {
        let plants = r.range(1, 6);
        for _ in 0..plants {
            let at = match r.below(6) {
                0 => 0,
                1 => l - m,
                _ => r.usize_below(l - m + 1),
            };
            let mut w = cons.clone();
            let muts = r.below(3);
            for _ in 0..muts {
                let p = r.usize_below(m);
                w[p] = *r.pick(&letters);
            }
            s[at..at + m].copy_from_slice(&w);
        }
    }
    String::from_utf8(s).unwrap()
}

fn gen_len(r: &mut Prng, m: usize, class: u64, block_hint: usize) -> usize {
    match class % 10 {
        0 => r.usize_below(m.max(1)), // L < M (incl. 0)
        1 => m,
        2 => 0,
        3 => 32 * r.range(1, 12),
        4 => {
            // R within M of a multiple of the block size
            let k = r.range(1, 3);
            let target_rows = (k * block_hint).saturating_sub(r.usize_below(m + 2)) + r.usize_below(3);
            (target_rows.max(1) * 32).saturating_sub(r.usize_below(32))
        }
        5 => r.range(m + 1, m + 40),
        6 => 32 * r.range(200, 2000) - r.usize_below(32),
        7 => {
            // row counts at powers of two and one off, lengths at and around the row boundary
            let rows = *r.pick(&[255usize, 256, 257, 511, 512, 513, 1023, 1024, 1025, 2047, 2048, 2049]);
            let rows = if r.chance(1, 4) { rows.min(513) } else { rows.min(1025) };
            (32 * rows + *r.pick(&[0usize, 1, 31])).saturating_sub(*r.pick(&[0usize, 1, 32]))
        }
        _ => r.heavy(m, 3000),
    }
}

/// Sequences with more than 2^16 striped rows (beyond every 16-bit row counter), at a low rate.
fn gen_huge_len(r: &mut Prng) -> usize {
    32 * (65536 + *r.pick(&[0usize, 1, 2, 100, 4464])) + *r.pick(&[0usize, 1, 31]) - *r.pick(&[0usize, 1, 32])
}

pub fn gen_world(r: &mut Prng, idx: u64, prop: &str, forced: Option<(usize, usize)>) -> Sc {
    let m = match forced {
        Some((_, m)) => m,
        None => match r.below(40) {
            0..=4 => 1,
            5..=9 => r.range(25, 40),
            10 => *r.pick(&[63usize, 64, 65, 127, 128, 129, 255, 256, 257]),
            _ => r.range(2, 20),
        },
    };
    // two-valued matrices: prefer the widths that divide 255
    let m = if forced.is_none() && idx % 6 == 5 && r.chance(2, 3) { *r.pick(&[1usize, 3, 5, 15, 17, 51]) } else { m };
    let matrix = gen_matrix(r, m, idx);
    let spare_width = if r.chance(1, 4) { m + r.range(1, 40) } else { 0 };
    let wrap = (m - 1).max(spare_width.saturating_sub(1));
    let block_hint = *r.pick(&[8usize, 16, 32, 64, 256]);
    let huge = forced.is_none() && idx % 4001 == 4000;
    let l = match forced {
        Some((l, _)) => l,
        None if huge => gen_huge_len(r),
        None => gen_len(r, m, idx / 5, block_hint),
    };
    let seq = gen_seq(r, l, &matrix, idx / 50);
    let rows = (l + 31) / 32;
    let block_size = match r.below(12) {
        0 => 1,
        1 => 2,
        2 => 3,
        3 => rows.saturating_sub(1).max(1),
        4 => rows.max(1),
        5 => rows + 1,
        6 => (rows + wrap).saturating_sub(1).max(1),
        7 => rows + wrap,
        8 => 256,
        9 => *r.pick(&[1_000_000usize, usize::MAX, 65_535, 65_536, 65_537]),
        10 => block_hint,
        _ => r.range(1, rows + wrap + 2),
    };
    let block_size = if huge && r.chance(2, 3) { *r.pick(&[65_536usize, 65_537, 1_000_000, usize::MAX, rows]) } else { block_size };
    let threshold = match (idx / 3) % 8 {
        0 => ThresholdSpec::BelowMin,
        1 => ThresholdSpec::NegInf,
        2 => ThresholdSpec::AtRank(r.usize_below(6)),
        3 => ThresholdSpec::BetweenRanks(r.usize_below(6)),
        4 => ThresholdSpec::AboveMax,
        5 => ThresholdSpec::AtRank(0),
        6 => ThresholdSpec::AtRank(r.heavy(0, 60)),
        _ => ThresholdSpec::Value(((r.unit_f64() * 30.0 - 25.0) as f32).to_bits()),
    };
    let host = match idx % 4 {
        0 | 1 => Host::Avx2,
        2 => Host::Sse2,
        _ => Host::Generic,
    };
    let host = if host == Host::Avx2 && !cpu::real_host_has_avx2() { Host::Sse2 } else { host };
    let alloc = if r.chance(1, 4) { Policy::ExactPoison } else { Policy::System };
    let (nexts, then) = if prop == "C03" {
        (if r.chance(1, 2) { 0 } else { r.heavy(1, 12) }, Then::Max)
    } else {
        match r.below(10) {
            0 => (r.heavy(0, 8), Then::Drop),
            1 => (r.heavy(0, 8), Then::Max),
            _ => (r.heavy(0, 5), Then::Drain),
        }
    };
    Sc {
        seq,
        matrix,
        threshold,
        block_size,
        host,
        alloc,
        spare_width,
        own_buffer: r.chance(1, 5),
        nexts,
        then,
        py_poke_width: None,
        py_pre_width: None,
        py_copy: false,
        drain: if then == Then::Drain && prop != "C03" && r.chance(1, 3) {
            match r.below(6) {
                0 | 1 => Drain::ForEach,
                2 => Drain::Collect,
                3 => Drain::Count,
                4 => Drain::Last,
                _ => Drain::Nth(r.heavy(0, 6)),
            }
        } else {
            Drain::Next
        },
        raise_before_max: if then == Then::Max && nexts > 0 && r.chance(1, 4) {
            Some(*r.pick(&[ThresholdSpec::AtRank(0), ThresholdSpec::AtRank(1), ThresholdSpec::BetweenRanks(0), ThresholdSpec::AboveMax, ThresholdSpec::AtRank(3)]))
        } else {
            None
        },
    }
}

// --- all-block-sizes phase (the only exhaustive part) ------------------------------------------------

const ABS_WORLDS: u64 = 200;

fn abs_dims(s: u64) -> (usize, usize) {
    let l = 1 + ((s * 37) % 900) as usize;
    let m = 1 + (s % 24) as usize;
    (l, m)
}

fn abs_count(s: u64) -> u64 {
    let (l, m) = abs_dims(s);
    let rows = (l + 31) / 32;
    (rows + (m - 1) + 2) as u64
}

// --- running -----------------------------------------------------------------------------------

pub struct ScanSim;

fn host_probe(h: Host) -> &'static str {
    match h {
        Host::Generic => "host=generic",
        Host::Sse2 => "host=sse2",
        Host::Avx2 => "host=avx2",
    }
}

fn alloc_probe(p: Policy) -> &'static str {
    match p {
        Policy::System => "alloc=system",
        Policy::ExactPoison => "alloc=exact-align+poison",
        Policy::GuardEnd => "alloc=guard-end",
        Policy::GuardStart => "alloc=guard-start",
    }
}

fn nt(c: u8) -> Nucleotide {
    match c {
        b'A' => Nucleotide::A,
        b'C' => Nucleotide::C,
        b'T' => Nucleotide::T,
        b'G' => Nucleotide::G,
        _ => Nucleotide::N,
    }
}

pub fn build_pssm(spec: &MatrixSpec) -> ScoringMatrix<Dna> {
    match spec {
        MatrixSpec::Direct { rows, .. } => {
            let data: Vec<[f32; 5]> = rows.iter().map(|r| [f32::from_bits(r[0]), f32::from_bits(r[1]), f32::from_bits(r[2]), f32::from_bits(r[3]), f32::from_bits(r[4])]).collect();
            let dense = DenseMatrix::<f32, U5>::from_rows(data.iter());
            ScoringMatrix::new(Background::uniform(), dense)
        }
        MatrixSpec::Counts { counts, pseudo_bits, background } => {
            let data: Vec<[u32; 5]> = counts.iter().map(|c| [c[0], c[1], c[2], c[3], 0]).collect();
            let dense = DenseMatrix::<u32, U5>::from_rows(data.iter());
            let cm = CountMatrix::<Dna>::new(dense).expect("CountMatrix::new");
            let bg = background.map(|b| {
                let f = [f32::from_bits(b[0]), f32::from_bits(b[1]), f32::from_bits(b[2]), f32::from_bits(b[3]), f32::from_bits(b[4])];
                Background::<Dna>::new(f).expect("HARNESS: generated background is invalid")
            });
            cm.to_freq(f32::from_bits(*pseudo_bits)).to_scoring(bg)
        }
    }
}

struct Ctx<'a> {
    sc: &'a Sc,
    prop: &'a str,
}

impl<'a> Ctx<'a> {
    fn tags(&self, extra: &str) -> String {
        let l = self.sc.seq.len();
        let m = self.sc.matrix.width();
        let mut t = format!("host={}", self.sc.host.as_str());
        if l < m {
            t.push_str(",L<M");
        }
        if !extra.is_empty() {
            t.push(',');
            t.push_str(extra);
        }
        t
    }
    fn panic_violation(&self, p: &Panicked, at: &str, extra: &str) -> Violation {
        Violation::new(p.class(), self.tags(extra), format!("{}: {}", at, p.msg))
    }
}

impl ScanSim {
    fn run_inner(prop: &str, sc: &Sc, o: &mut Outcome) {
        let ctx = Ctx { sc, prop };
        let _ = ctx.prop;
        o.probe(host_probe(sc.host));
        o.probe(alloc_probe(sc.alloc));
        let seq_bytes = sc.seq.as_bytes();
        let l = seq_bytes.len();
        let m = sc.matrix.width();

        // build the world: matrix, encoded + striped sequence with look-ahead rows
        alloc::begin_run(sc.alloc);
        let built = sut(|| {
            cpu::with_host(sc.host, || {
                let pssm = build_pssm(&sc.matrix);
                let enc = EncodedSequence::<Dna>::encode(seq_bytes).expect("HARNESS: sequence must encode");
                let mut striped: StripedSequence<Dna> = enc.to_striped();
                if sc.spare_width > 0 {
                    striped.configure_wrap(sc.spare_width - 1);
                }
                striped.configure(&pssm);
                (pssm, striped)
            })
        });
        let (pssm, striped) = match built {
            Ok(x) => x,
            Err(p) => {
                alloc::end_run();
                o.violate(ctx.panic_violation(&p, "building matrix / striped sequence", "setup"));
                return;
            }
        };
        let _ = nt;
        // matrix values as the library holds them
        let rows: Vec<[f32; 5]> = pssm.matrix().iter().map(|r| [r[0], r[1], r[2], r[3], r[4]]).collect();
        let table = score_table(&rows, seq_bytes);
        let t = resolve_threshold(sc.threshold, &table, &rows);
        let n_pos = table.f32s.len();
        let exact = matches!(sc.matrix, MatrixSpec::Direct { exact: true, .. });
        let seq_rows = (l + 31) / 32;
        let wrap = striped.wrap();
        crate::ev!(o.trace, "world L={} M={} R={} W={} B={} t={:e} host={} alloc={} positions={}", l, m, seq_rows, wrap, sc.block_size, t, sc.host.as_str(), sc.alloc.as_str(), n_pos);

        // expected hits
        let band = |i: usize| -> bool { !exact && (table.f64s[i] - t as f64).abs() <= table.tol[i] };
        let expected: BTreeSet<usize> = (0..n_pos).filter(|&i| table.f32s[i] >= t).collect();

        // 8-bit overflow predicate on hosts without saturating adds (known finding of C08 seen via C02)
        let dm = sut(|| pssm.to_discrete());
        let u8_overflow = match &dm {
            Ok(dm) => {
                let d: Vec<[u32; 5]> = dm.matrix().iter().map(|r| [r[0] as u32, r[1] as u32, r[2] as u32, r[3] as u32, r[4] as u32]).collect();
                // any scored cell (including padding cells) whose byte sum exceeds 255: computed
                // from the striped matrix itself, i.e. exactly the sums the generic kernel forms
                let mut over = false;
                let mx = striped.matrix();
                if l >= m {
                    'o: for r0 in 0..seq_rows {
                        for c in 0..32 {
                            let mut s = 0u32;
                            for j in 0..m {
                                s += d[j][mx[r0 + j][c] as usize];
                            }
                            if s > 255 {
                                over = true;
                                break 'o;
                            }
                        }
                    }
                }
                over
            }
            Err(_) => false,
        };
        if u8_overflow {
            o.probe(if sc.host == Host::Avx2 { "byte-sum-saturated(avx2)" } else { "byte-sum-would-exceed-255(generic/sse2)" });
        }
        let ovf_tag = if u8_overflow && sc.host != Host::Avx2 { "u8sum>255" } else { "" };

        // block-boundary classes (coverage + probes)
        let b = sc.block_size.max(1);
        let total_rows = seq_rows + wrap;
        let mut boundary_in_wrap = false;
        let mut boundary_at_r = false;
        let mut boundary_in_seq = false;
        let mut k = b;
        while k <= total_rows {
            if k < seq_rows {
                boundary_in_seq = true;
            } else if k == seq_rows {
                boundary_at_r = true;
            } else if k < total_rows {
                boundary_in_wrap = true;
            }
            k = match k.checked_add(b) {
                Some(x) => x,
                None => break,
            };
        }
        if boundary_in_wrap {
            o.probe("block-boundary-inside-wrap-rows");
        }

        // --- the caller program ---
        let mut own_buf: StripedScores<f32> = StripedScores::empty();
        let mut seen: BTreeSet<usize> = BTreeSet::new();
        let mut violation: Option<Violation> = None;
        let mut max_result: Option<Option<(usize, f32)>> = None;
        let mut raised_to: Option<f32> = None;
        let mut exhausted = false;
        let mut calls = 0usize;
        let mut buffered_across_calls = false;
        // Drain::Nth: number of hits the caller asked the iterator to skip unseen
        let mut skipped: Option<usize> = None;
        // every score yielded so far was bit-for-bit the reference value (evidence that the scanner's
        // notion of "the score" is the library's score_position, see `tie_confirmed` below)
        let scores_bit_exact = std::cell::Cell::new(true);
        {
            let scanner_r = sut(|| {
                cpu::with_host(sc.host, || {
                    let mut s = Scanner::new(&pssm, &striped);
                    s.threshold(t).block_size(sc.block_size);
                    s
                })
            });
            let mut scanner = match scanner_r {
                Ok(s) => s,
                Err(p) => {
                    alloc::end_run();
                    o.violate(ctx.panic_violation(&p, "Scanner::new", ovf_tag));
                    return;
                }
            };
            if sc.own_buffer {
                scanner.scores(&mut own_buf);
            }
            let budget = n_pos + 2;
            let check_hit = |pos: usize, score: f32, seen: &mut BTreeSet<usize>, o: &mut Outcome| -> Option<Violation> {
                if pos >= n_pos {
                    return Some(Violation::new("out-of-range-hit", ctx.tags(ovf_tag), format!("hit at position {} but the last valid position is {:?} (L={}, M={})", pos, n_pos.checked_sub(1), l, m)));
                }
                if !seen.insert(pos) {
                    return Some(Violation::new("duplicate-hit", ctx.tags(ovf_tag), format!("position {} returned twice", pos)));
                }
                let want = table.f32s[pos];
                if score.to_bits() != want.to_bits() && !(score == want) {
                    if exact || (score as f64 - table.f64s[pos]).abs() > table.tol[pos] {
                        return Some(Violation::new("wrong-score", ctx.tags(ovf_tag), format!("position {}: score {:e} but the definition gives {:e}", pos, score, want)));
                    }
                    scores_bit_exact.set(false);
                    o.tolerated += 1;
                }
                if !(want >= t) {
                    if band(pos) {
                        o.tolerated += 1;
                    } else {
                        return Some(Violation::new("spurious-hit", ctx.tags(ovf_tag), format!("position {} has score {:e} < threshold {:e}", pos, want, t)));
                    }
                }
                None
            };
            let total_nexts = sc.nexts;
            for _ in 0..total_nexts {
                if exhausted {
                    break;
                }
                calls += 1;
                o.steps += 1;
                match sut(|| cpu::with_host(sc.host, || scanner.next())) {
                    Err(p) => {
                        violation = Some(ctx.panic_violation(&p, &format!("Scanner::next() call #{}", calls), ovf_tag));
                        break;
                    }
                    Ok(None) => {
                        crate::ev!(o.trace, "next -> None");
                        exhausted = true;
                    }
                    Ok(Some(h)) => {
                        crate::ev!(o.trace, "next -> {} {:e}", h.position(), h.score());
                        if let Some(v) = check_hit(h.position(), h.score(), &mut seen, o) {
                            violation = Some(v);
                            break;
                        }
                    }
                }
            }
            if violation.is_none() {
                if seen.len() >= 2 {
                    buffered_across_calls = true;
                }
                match sc.then {
                    Then::Drain if sc.drain != Drain::Next => {
                        // consuming adaptors: the scanner is moved into the adaptor
                        o.steps += 1;
                        let mut skip_then_loop = None;
                        match sc.drain {
                            Drain::ForEach | Drain::Collect => {
                                o.probe(if sc.drain == Drain::ForEach { "drained-by-for_each" } else { "drained-by-collect" });
                                let style = sc.drain;
                                let r = sut(move || {
                                    cpu::with_host(sc.host, || {
                                        let mut got: Vec<(usize, f32)> = Vec::new();
                                        if style == Drain::ForEach {
                                            scanner.for_each(|h| got.push((h.position(), h.score())));
                                        } else {
                                            got = scanner.collect::<Vec<_>>().into_iter().map(|h| (h.position(), h.score())).collect();
                                        }
                                        got
                                    })
                                });
                                match r {
                                    Err(p) => violation = Some(ctx.panic_violation(&p, &format!("{:?} after {} next() calls", sc.drain, calls), ovf_tag)),
                                    Ok(got) => {
                                        crate::ev!(o.trace, "{:?} -> {} hits", sc.drain, got.len());
                                        if got.len() > budget {
                                            violation = Some(Violation::new("no-progress", ctx.tags(ovf_tag), format!("{:?} produced {} hits on {} valid positions", sc.drain, got.len(), n_pos)));
                                        } else {
                                            for (pos, score) in got {
                                                if let Some(v) = check_hit(pos, score, &mut seen, o) {
                                                    violation = Some(v);
                                                    break;
                                                }
                                            }
                                            exhausted = true;
                                        }
                                    }
                                }
                            }
                            Drain::Count | Drain::Last => {
                                o.probe(if sc.drain == Drain::Count { "drained-by-count" } else { "drained-by-last" });
                                let style = sc.drain;
                                let r = sut(move || {
                                    cpu::with_host(sc.host, || {
                                        if style == Drain::Count {
                                            (scanner.count(), None)
                                        } else {
                                            (0, Some(scanner.last().map(|h| (h.position(), h.score()))))
                                        }
                                    })
                                });
                                match r {
                                    Err(p) => violation = Some(ctx.panic_violation(&p, &format!("{:?} after {} next() calls", sc.drain, calls), ovf_tag)),
                                    Ok((n, last)) => {
                                        crate::ev!(o.trace, "{:?} -> {} {:?}", sc.drain, n, last);
                                        // what is still owed: unseen positions that must come (outside the band) and that may come
                                        let owed_strict = expected.iter().filter(|&&i| !seen.contains(&i) && !band(i)).count();
                                        let owed_max = (0..n_pos).filter(|&i| !seen.contains(&i) && (table.f32s[i] >= t || band(i))).count();
                                        match last {
                                            None => {
                                                if n < owed_strict || n > owed_max {
                                                    violation = Some(Violation::new(
                                                        if n < owed_strict { "missing-hit" } else { "spurious-hit" },
                                                        ctx.tags("count"),
                                                        format!("count() after {} next() calls returned {} but {} positions at or above the threshold {:e} had not been returned yet", calls, n, owed_strict, t),
                                                    ));
                                                }
                                            }
                                            Some(None) => {
                                                if owed_strict > 0 {
                                                    violation = Some(Violation::new("missing-hit", ctx.tags("last"), format!("last() after {} next() calls returned None but {} positions at or above the threshold {:e} had not been returned yet", calls, owed_strict, t)));
                                                }
                                            }
                                            Some(Some((pos, score))) => {
                                                if let Some(v) = check_hit(pos, score, &mut seen, o) {
                                                    violation = Some(v);
                                                }
                                            }
                                        }
                                    }
                                }
                            }
                            Drain::Nth(k) => {
                                o.probe("hits-skipped-with-nth");
                                let r = sut(|| cpu::with_host(sc.host, || scanner.nth(k).map(|h| (h.position(), h.score()))));
                                match r {
                                    Err(p) => violation = Some(ctx.panic_violation(&p, &format!("nth({}) after {} next() calls", k, calls), ovf_tag)),
                                    Ok(None) => {
                                        crate::ev!(o.trace, "nth({}) -> None", k);
                                        let owed_strict = expected.iter().filter(|&&i| !seen.contains(&i) && !band(i)).count();
                                        if owed_strict > k {
                                            violation = Some(Violation::new("missing-hit", ctx.tags("nth"), format!("nth({}) after {} next() calls returned None but {} positions at or above the threshold {:e} had not been returned yet", k, calls, owed_strict, t)));
                                        }
                                    }
                                    Ok(Some((pos, score))) => {
                                        crate::ev!(o.trace, "nth({}) -> {} {:e}", k, pos, score);
                                        if let Some(v) = check_hit(pos, score, &mut seen, o) {
                                            violation = Some(v);
                                        } else {
                                            skipped = Some(k);
                                            skip_then_loop = Some(scanner);
                                        }
                                    }
                                }
                            }
                            Drain::Next => unreachable!(),
                        }
                        if let Some(mut scanner) = skip_then_loop {
                            while !exhausted && violation.is_none() {
                                calls += 1;
                                o.steps += 1;
                                if calls > budget + sc.nexts {
                                    violation = Some(Violation::new("no-progress", ctx.tags(ovf_tag), format!("{} calls of next() on {} valid positions without reaching None", calls, n_pos)));
                                    break;
                                }
                                match sut(|| cpu::with_host(sc.host, || scanner.next())) {
                                    Err(p) => violation = Some(ctx.panic_violation(&p, &format!("Scanner::next() call #{}", calls), ovf_tag)),
                                    Ok(None) => exhausted = true,
                                    Ok(Some(h)) => {
                                        crate::ev!(o.trace, "next -> {} {:e}", h.position(), h.score());
                                        if let Some(v) = check_hit(h.position(), h.score(), &mut seen, o) {
                                            violation = Some(v);
                                        }
                                    }
                                }
                            }
                            if let Err(p) = sut(move || drop(scanner)) {
                                violation.get_or_insert(ctx.panic_violation(&p, "drop(Scanner)", ovf_tag));
                            }
                        }
                    }
                    Then::Drain => {
                        while !exhausted {
                            calls += 1;
                            o.steps += 1;
                            if calls > budget + sc.nexts {
                                violation = Some(Violation::new("no-progress", ctx.tags(ovf_tag), format!("{} calls of next() on {} valid positions without reaching None", calls, n_pos)));
                                break;
                            }
                            match sut(|| cpu::with_host(sc.host, || scanner.next())) {
                                Err(p) => {
                                    violation = Some(ctx.panic_violation(&p, &format!("Scanner::next() call #{}", calls), ovf_tag));
                                    break;
                                }
                                Ok(None) => {
                                    crate::ev!(o.trace, "next -> None");
                                    exhausted = true;
                                }
                                Ok(Some(h)) => {
                                    crate::ev!(o.trace, "next -> {} {:e}", h.position(), h.score());
                                    if let Some(v) = check_hit(h.position(), h.score(), &mut seen, o) {
                                        violation = Some(v);
                                        break;
                                    }
                                }
                            }
                        }
                        if let Err(p) = sut(move || drop(scanner)) {
                            violation.get_or_insert(ctx.panic_violation(&p, "drop(Scanner)", ovf_tag));
                        }
                    }
                    Then::Max => {
                        o.steps += 1;
                        if let Some(spec) = sc.raise_before_max {
                            let t2 = resolve_threshold(spec, &table, &rows);
                            if t2 > t {
                                raised_to = Some(t2);
                                scanner.threshold(t2);
                                o.probe("threshold-raised-between-next-and-max");
                                crate::ev!(o.trace, "threshold raised to {:e}", t2);
                            }
                        }
                        match sut(|| cpu::with_host(sc.host, || scanner.max())) {
                            Err(p) => violation = Some(ctx.panic_violation(&p, &format!("Scanner::max() after {} next() calls", calls), ovf_tag)),
                            Ok(r) => {
                                crate::ev!(o.trace, "max -> {:?}", r.as_ref().map(|h| (h.position(), h.score())));
                                max_result = Some(r.map(|h| (h.position(), h.score())));
                            }
                        }
                    }
                    Then::Drop => {
                        if let Err(p) = sut(move || drop(scanner)) {
                            violation = Some(ctx.panic_violation(&p, "drop(Scanner)", ovf_tag));
                        }
                    }
                }
            } else {
                let _ = sut(move || drop(scanner));
            }
        }
        alloc::end_run();
        if let Some(v) = violation {
            o.violate(v);
            return;
        }
        if buffered_across_calls {
            o.probe("hits-returned-across-several-next-calls");
        }

        // A position inside the tolerance band is don't-care because another legitimate summation order
        // could put its score on the other side of the threshold. That reason does not apply when the
        // tree's own public definition of the score, ScoringMatrix::score_position, evaluates to the very
        // value of the reference (>= threshold) AND the scanner demonstrably reports that same function
        // (it yielded at least one hit in this run, every one of them bit-for-bit the reference value):
        // then the library contradicts itself by withholding the position.
        let tie_confirmed = |i: usize, thr: f32, n_seen: usize| -> bool {
            if n_seen == 0 || !scores_bit_exact.get() {
                return false;
            }
            match sut(|| cpu::with_host(sc.host, || pssm.score_position(&striped, i))) {
                Ok(v) => v.to_bits() == table.f32s[i].to_bits() && v >= thr,
                Err(_) => false,
            }
        };

        // --- history checks ---
        if let (true, Some(k)) = (exhausted && sc.then == Then::Drain, skipped) {
            // k hits were skipped unseen: exactly k of the owed positions may be absent
            let missing_strict = expected.iter().filter(|&&i| !seen.contains(&i) && !band(i)).count();
            let missing_max = (0..n_pos).filter(|&i| !seen.contains(&i) && (table.f32s[i] >= t || band(i))).count();
            if missing_strict > k || missing_max < k {
                o.violate(Violation::new(
                    if missing_strict > k { "missing-hit" } else { "spurious-hit" },
                    ctx.tags("nth"),
                    format!("nth({}) skipped {} hits, yet {} positions at or above the threshold {:e} (at most {}) were never returned", k, k, missing_strict, t, missing_max),
                ));
                return;
            }
        } else if exhausted && sc.then != Then::Max {
            let mut tie_checks = 0;
            for &i in &expected {
                if !seen.contains(&i) {
                    let mut tie = false;
                    if band(i) {
                        tie_checks += 1;
                        if tie_checks > 16 || !tie_confirmed(i, t, seen.len()) {
                            o.tolerated += 1;
                            continue;
                        }
                        tie = true;
                    }
                    o.violate(Violation::new(
                        "missing-hit",
                        ctx.tags(if tie { "tie" } else { ovf_tag }),
                        format!(
                            "position {} scores {:e} >= threshold {:e} but was never returned ({} of {} expected hits seen){}",
                            i,
                            table.f32s[i],
                            t,
                            seen.len(),
                            expected.len(),
                            if tie { "; the score ties with the threshold within rounding, but score_position of this tree gives exactly this value and every returned hit carried score_position's value" } else { "" }
                        ),
                    ));
                    return;
                }
            }
        }
        if let Some(r) = max_result {
            if calls > 0 && !seen.is_empty() {
                o.probe("max-after-partial-consumption");
            }
            // the threshold that max() had to honour (raised after the next() calls in some programs)
            let t = raised_to.unwrap_or(t);
            let band = |i: usize| -> bool { !exact && (table.f64s[i] - t as f64).abs() <= table.tol[i] };
            let expected: BTreeSet<usize> = (0..n_pos).filter(|&i| table.f32s[i] >= t).collect();
            // U = expected hits not yet returned
            let u: Vec<usize> = expected.iter().copied().filter(|i| !seen.contains(i)).collect();
            let u_strict: Vec<usize> = u.iter().copied().filter(|&i| !band(i)).collect();
            let best = u.iter().map(|&i| table.f32s[i]).fold(f32::NEG_INFINITY, f32::max);
            match r {
                None => {
                    if !exhausted && u_strict.is_empty() {
                        // only ties remain: strict when the library's own score confirms them (see tie_confirmed)
                        if let Some(&i) = u.iter().take(16).find(|&&i| tie_confirmed(i, t, seen.len())) {
                            o.violate(Violation::new(
                                "max-none-but-hits-remain",
                                ctx.tags("tie"),
                                format!("max() returned None but position {} scores {:e} >= threshold {:e} by score_position of this tree, the function whose values the {} hits returned before carried ({} unconsumed hits)", i, table.f32s[i], t, seen.len(), u.len()),
                            ));
                            return;
                        }
                        o.tolerated += u.len() as u64;
                    }
                    if !exhausted && !u_strict.is_empty() {
                        // also allowed: nothing at all (U empty); otherwise a hit was lost
                        let i = *u_strict.iter().max_by(|a, b| table.f32s[**a].partial_cmp(&table.f32s[**b]).unwrap()).unwrap();
                        o.violate(Violation::new(
                            "max-none-but-hits-remain",
                            ctx.tags(ovf_tag),
                            format!("max() returned None but position {} scores {:e} >= threshold {:e} ({} unconsumed hits)", i, table.f32s[i], t, u.len()),
                        ));
                        return;
                    }
                }
                Some((pos, score)) => {
                    if pos >= n_pos {
                        o.violate(Violation::new("out-of-range-hit", ctx.tags(ovf_tag), format!("max() returned position {} but the last valid position is {:?} (L={}, M={})", pos, n_pos.checked_sub(1), l, m)));
                        return;
                    }
                    if seen.contains(&pos) {
                        o.violate(Violation::new("max-returned-consumed-hit", ctx.tags(ovf_tag), format!("max() returned position {} which next() had already returned", pos)));
                        return;
                    }
                    let want = table.f32s[pos];
                    if score != want {
                        if exact || (score as f64 - table.f64s[pos]).abs() > table.tol[pos] {
                            o.violate(Violation::new("wrong-score", ctx.tags(ovf_tag), format!("max(): position {} score {:e} but the definition gives {:e}", pos, score, want)));
                            return;
                        }
                        o.tolerated += 1;
                    }
                    if !(want >= t) {
                        if band(pos) {
                            o.tolerated += 1;
                        } else {
                            o.violate(Violation::new("max-below-threshold", ctx.tags(ovf_tag), format!("max() returned position {} with score {:e} < threshold {:e} ({} positions meet the threshold)", pos, want, t, u.len())));
                            return;
                        }
                    }
                    if want < best {
                        let mut near = !exact && (best as f64 - want as f64) <= table.tol[pos];
                        if near && score.to_bits() == want.to_bits() {
                            // same reasoning as for ties with the threshold: max() reported score_position's
                            // value for its answer; if score_position also gives exactly the larger reference
                            // value at another unconsumed position, the answer is not the maximum of the
                            // function it reports, whatever the summation order
                            if let Some(&bi) = u.iter().find(|&&i| table.f32s[i] == best) {
                                if tie_confirmed(bi, t, seen.len() + 1) {
                                    near = false;
                                }
                            }
                        }
                        if near {
                            o.tolerated += 1;
                        } else {
                            let bi = u.iter().copied().find(|&i| table.f32s[i] == best).unwrap();
                            o.violate(Violation::new(
                                "max-not-maximal",
                                ctx.tags(ovf_tag),
                                format!("max() returned position {} score {:e}, but unconsumed position {} scores {:e}", pos, want, bi, best),
                            ));
                            return;
                        }
                    }
                }
            }
        }

        // --- coverage key ---
        let l_class = if l < m {
            "L<M"
        } else if l == m {
            "L=M"
        } else if l % 32 == 0 {
            "L%32=0"
        } else if seq_rows > 256 {
            "long"
        } else {
            "other"
        };
        let b_class = if b == 1 {
            "B=1"
        } else if b < seq_rows {
            "B<R"
        } else if b == seq_rows {
            "B=R"
        } else if b < total_rows {
            "R<B<R+W"
        } else if b == total_rows {
            "B=R+W"
        } else {
            "B>R+W"
        };
        let t_class = match sc.threshold {
            ThresholdSpec::Value(_) => "value",
            ThresholdSpec::NegInf => "-inf",
            ThresholdSpec::AtRank(_) => "on-score",
            ThresholdSpec::BetweenRanks(_) => "between",
            ThresholdSpec::BelowMin => "below-min",
            ThresholdSpec::AboveMax => "above-max",
        };
        let shape = match (sc.nexts.min(2), sc.then) {
            (0, Then::Drain) if sc.drain != Drain::Next => "adaptor",
            (_, Then::Drain) if sc.drain != Drain::Next => "next+adaptor",
            (0, Then::Drain) => "drain",
            (_, Then::Drain) => "next+drain",
            (0, Then::Max) => "max",
            (_, Then::Max) => "next+max",
            (_, Then::Drop) => "drop",
        };
        if !expected.is_empty() || l < m {
            o.cov = Some(format!(
                "{}|{}|rmodb={}|{}{}{}|{}|{}|{}",
                sc.host.as_str(),
                b_class,
                if seq_rows % b == 0 { "0" } else if b.saturating_sub(seq_rows % b) < m { "near" } else { "far" },
                if boundary_in_seq { "s" } else { "-" },
                if boundary_at_r { "r" } else { "-" },
                if boundary_in_wrap { "w" } else { "-" },
                l_class,
                t_class,
                shape
            ));
        }
    }
}

impl Sim for ScanSim {
    type Sc = Sc;
    const NAME: &'static str = "scan";

    fn plan(prop: &str, tier: Tier) -> Vec<Phase> {
        let abs_total: u64 = (0..ABS_WORLDS).map(abs_count).sum();
        match (prop, tier) {
            (_, Tier::Quick) => vec![Phase { name: "worlds", count: 300_000, exhaustive: false }],
            ("C02", Tier::Thorough) => vec![
                Phase { name: "worlds", count: 6_000_000, exhaustive: false },
                Phase { name: "all-block-sizes", count: abs_total, exhaustive: true },
            ],
            (_, Tier::Thorough) => vec![
                Phase { name: "worlds", count: 6_000_000, exhaustive: false },
                Phase { name: "all-block-sizes", count: abs_total, exhaustive: true },
            ],
        }
    }

    fn generate(prop: &str, _tier: Tier, phase: &str, idx: u64, r: &mut Prng) -> Sc {
        match phase {
            "all-block-sizes" => {
                let mut s = 0u64;
                let mut base = 0u64;
                while idx >= base + abs_count(s) {
                    base += abs_count(s);
                    s += 1;
                }
                let (l, m) = abs_dims(s);
                // the world depends only on s (fixed seed), the block size on the local index
                let mut wr = Prng::new(0xB10C_0000 + s);
                let mut sc = gen_world(&mut wr, s, prop, Some((l, m)));
                sc.block_size = (idx - base + 1) as usize;
                sc.spare_width = 0;
                sc.host = [Host::Avx2, Host::Sse2, Host::Generic][(s % 3) as usize];
                if sc.host == Host::Avx2 && !cpu::real_host_has_avx2() {
                    sc.host = Host::Sse2;
                }
                sc
            }
            _ => gen_world(r, idx, prop, None),
        }
    }

    fn run(prop: &str, sc: &Sc, keep_trace: bool) -> Outcome {
        let mut o = Outcome::new(keep_trace);
        ScanSim::run_inner(prop, sc, &mut o);
        o
    }

    fn shrink(sc: &Sc) -> Vec<Sc> {
        let mut out = Vec::new();
        let l = sc.seq.len();
        let m = sc.matrix.width();
        if sc.alloc != Policy::System {
            let mut s = sc.clone();
            s.alloc = Policy::System;
            out.push(s);
        }
        if sc.own_buffer {
            let mut s = sc.clone();
            s.own_buffer = false;
            out.push(s);
        }
        if sc.spare_width > 0 {
            let mut s = sc.clone();
            s.spare_width = 0;
            out.push(s);
        }
        if sc.raise_before_max.is_some() {
            let mut s = sc.clone();
            s.raise_before_max = None;
            out.push(s);
        }
        match sc.drain {
            Drain::Next => {}
            Drain::Nth(k) => {
                let mut s = sc.clone();
                s.drain = Drain::Next;
                out.push(s);
                if k > 0 {
                    let mut s = sc.clone();
                    s.drain = Drain::Nth(k / 2);
                    out.push(s);
                }
            }
            _ => {
                let mut s = sc.clone();
                s.drain = Drain::Next;
                out.push(s);
            }
        }
        if sc.nexts > 0 {
            let mut s = sc.clone();
            s.nexts = 0;
            s.raise_before_max = None;
            out.push(s);
            let mut s = sc.clone();
            s.nexts = sc.nexts / 2;
            out.push(s);
        }
        // shorten the sequence: halves, then chunks, keeping either end
        let mut size = l / 2;
        while size >= 1 {
            let mut start = 0;
            let mut n = 0;
            while start < l && n < 16 {
                let end = (start + size).min(l);
                let mut s = sc.clone();
                s.seq = format!("{}{}", &sc.seq[..start], &sc.seq[end..]);
                out.push(s);
                start = end;
                n += 1;
            }
            if size == 1 {
                break;
            }
            size /= 2;
        }
        // narrow the matrix
        if m > 1 {
            for keep in [m / 2, m - 1] {
                if keep >= 1 && keep < m {
                    let mut s = sc.clone();
                    match &mut s.matrix {
                        MatrixSpec::Direct { rows, .. } => rows.truncate(keep),
                        MatrixSpec::Counts { counts, .. } => counts.truncate(keep),
                    }
                    out.push(s);
                }
            }
        }
        // simpler block sizes
        for b in [256usize, 1, 2, sc.block_size / 2] {
            if b >= 1 && b != sc.block_size {
                let mut s = sc.clone();
                s.block_size = b;
                out.push(s);
            }
        }
        // simpler thresholds
        match sc.threshold {
            ThresholdSpec::NegInf | ThresholdSpec::BelowMin => {}
            _ => {
                for t in [ThresholdSpec::BelowMin, ThresholdSpec::AtRank(0)] {
                    if t != sc.threshold {
                        let mut s = sc.clone();
                        s.threshold = t;
                        out.push(s);
                    }
                }
            }
        }
        if sc.host != Host::Generic {
            let mut s = sc.clone();
            s.host = Host::Generic;
            out.push(s);
        }
        // plain sequence content
        if sc.seq.bytes().any(|b| b != b'A') && l <= 64 {
            for i in 0..l {
                if sc.seq.as_bytes()[i] != b'A' {
                    let mut v = sc.seq.clone().into_bytes();
                    v[i] = b'A';
                    let mut s = sc.clone();
                    s.seq = String::from_utf8(v).unwrap();
                    out.push(s);
                }
            }
        }
        out
    }

    fn size(sc: &Sc) -> BTreeMap<&'static str, u64> {
        let mut m = BTreeMap::new();
        m.insert("L", sc.seq.len() as u64);
        m.insert("M", sc.matrix.width() as u64);
        m.insert("block_size", sc.block_size as u64);
        m.insert("nexts", sc.nexts as u64);
        m
    }

    fn rule(prop: &str) -> String {
        let common = "Cases: worlds made of a DNA sequence (uniform / skewed / wildcard runs / planted consensus and near-consensus words), a scoring matrix (library conversions from counts with uniform or wildcard-bearing background, direct finite values, exact-arithmetic k/8 entries, degenerate constant rows), width 1..40, length classes (L<M, L=M, 0, multiples of 32, row count within M of a block multiple, up to 64 000), threshold classes (below minimum, -inf, on an attained score, between two scores, above maximum, value), block size classes (1,2,3,R-1,R,R+1,R+W-1,R+W,256,1e6,random), simulated host CPU (generic / sse2 / avx2), allocator policy, spare look-ahead rows, and a caller program. Distinct = distinct tuples (host, block-size class, R mod B class, block boundary inside sequence rows / at R / inside wrap rows, length class, threshold class, program shape). Non-trivial = at least one expected hit, or L < M.";
        match prop {
            "C03" => format!("{} Program: k next() calls then max().", common),
            _ => format!("{} Program: k next() calls then drain / max / drop; the drain step is a next() loop or, one time in three, a consuming adaptor (for_each, collect, count, last, nth(k) then a loop).", common),
        }
    }

    fn required_probes(_prop: &str, _tier: Tier) -> Vec<&'static str> {
        vec!["block-boundary-inside-wrap-rows", "host=generic", "host=sse2"]
        // (the adaptor probes are C02-only and therefore not required here: C03 shares this list)
    }

    fn assumptions(_prop: &str) -> Vec<String> {
        vec![
            "In contract: non-wildcard matrix entries finite, wildcard column -inf or any finite value (below, inside or above the range of the row), threshold not NaN and not changed once iteration has started (the property is silent about that), look-ahead rows >= M-1 (configure was called).".into(),
            "Reference score = f32 left-to-right sum over the matrix values the library holds (bit-for-bit what score_position evaluates); for non-exact matrices a position within 2*M*2^-24*sum|term| of the threshold or of the maximum is don't-care (counted as tolerated), unless the tie is confirmed: score_position of the tree under test gives exactly the reference value there and every score the scanner returned in that run was bit-for-bit the reference value (at least one), in which case the position is expected strictly.".into(),
            "The avx2 host profile needs a machine with AVX2 (present here); generic and sse2 arms are reached through the verif-hooks override.".into(),
        ]
    }
}
