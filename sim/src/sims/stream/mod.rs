//! Simulator `stream`: the four motif-file readers of `lightmotif-io` driven through the stream
//! seam. Serves C14 (benign schedules, exact oracle) and C15 (destructive faults, no-panic /
//! termination oracle).

pub mod corpus;
pub mod gen;
pub mod model;

use std::collections::{BTreeMap, BTreeSet};
use std::io::BufReader;
use std::rc::Rc;

use serde::{Deserialize, Serialize};

use lightmotif::abc::{Alphabet, Dna, Protein, Symbol};
use lightmotif::dense::DenseMatrix;

use self::model::{FileModel, Format, Rec};

use crate::kit::{sut, Outcome, Phase, Prng, Sim, Tier, Violation};
use crate::seam::stream::{Mode, SimSource, Transport, BUDGET_MSG};

// --- scenario ----------------------------------------------------------------------------------

/// Bytes that serialise readably (UTF-8 text when possible, hex otherwise).
#[derive(Clone, Debug, PartialEq)]
pub struct Blob(pub Vec<u8>);

impl Serialize for Blob {
    fn serialize<S: serde::Serializer>(&self, s: S) -> Result<S::Ok, S::Error> {
        use serde::ser::SerializeMap;
        let mut m = s.serialize_map(Some(1))?;
        match std::str::from_utf8(&self.0) {
            Ok(t) => m.serialize_entry("utf8", t)?,
            Err(_) => {
                let hex: String = self.0.iter().map(|b| format!("{:02x}", b)).collect();
                m.serialize_entry("hex", &hex)?
            }
        }
        m.end()
    }
}

impl<'de> Deserialize<'de> for Blob {
    fn deserialize<D: serde::Deserializer<'de>>(d: D) -> Result<Self, D::Error> {
        let m: BTreeMap<String, String> = BTreeMap::deserialize(d)?;
        if let Some(t) = m.get("utf8") {
            Ok(Blob(t.as_bytes().to_vec()))
        } else if let Some(h) = m.get("hex") {
            let b = h.as_bytes();
            let mut v = Vec::with_capacity(b.len() / 2);
            for i in (0..b.len() / 2 * 2).step_by(2) {
                let s = std::str::from_utf8(&b[i..i + 2]).map_err(serde::de::Error::custom)?;
                v.push(u8::from_str_radix(s, 16).map_err(serde::de::Error::custom)?);
            }
            Ok(Blob(v))
        } else {
            Err(serde::de::Error::custom("blob needs utf8 or hex"))
        }
    }
}

#[derive(Clone, Debug, Serialize, Deserialize, PartialEq)]
pub enum Input {
    /// Generator model: the text is rendered from it and it is the expected result (C14).
    Model(FileModel),
    /// A bundled file of the repository, by path relative to /repo (C14: schedule-independence
    /// against the all-at-once parse, record count against the harness's own delimiter count).
    Bundled { format: Format, path: String },
    /// Raw bytes (C15).
    Bytes {
        format: Format,
        data: Blob,
        /// Where the bytes come from (corpus file, fault kind, offset) - informational.
        origin: String,
    },
}

impl Input {
    pub fn format(&self) -> Format {
        match self {
            Input::Model(m) => m.format,
            Input::Bundled { format, .. } => *format,
            Input::Bytes { format, .. } => *format,
        }
    }
}

#[derive(Clone, Debug, Serialize, Deserialize, PartialEq)]
pub struct Sc {
    pub input: Input,
    pub transport: Transport,
    /// C14, generated files only: the consumer takes this many records with next() and then hands the reader
    /// to a consuming adaptor (1 = for_each, 2 = collect, 3 = count, 4 = last) instead of looping on next().
    #[serde(default)]
    pub consume: Option<(u32, u8)>,
}

// --- what the reader returned, in a format-independent shape --------------------------------------

#[derive(Clone, Debug, PartialEq, Default)]
pub struct GotRec {
    pub id: Option<String>,
    pub desc: Option<String>,
    pub acc: Option<String>,
    pub name: Option<String>,
    pub rows: usize,
    pub u32s: Option<Vec<Vec<u32>>>,
    pub f32s: Option<Vec<Vec<u32>>>, // f32 bit patterns
    /// TRANSFAC: result of `to_counts()` (None = not offered, Some(None) = library said "not counts").
    pub counts: Option<Option<Vec<Vec<u32>>>>,
    pub refs: Option<usize>,
    pub debug_hash: u64,
}

fn fnv(s: &str) -> u64 {
    let mut h = 0xcbf2_9ce4_8422_2325u64;
    for b in s.bytes() {
        h ^= b as u64;
        h = h.wrapping_mul(0x0000_0100_0000_01B3);
    }
    h
}

fn mat_u32<A: Alphabet>(m: &DenseMatrix<u32, A::K>) -> Vec<Vec<u32>> {
    m.iter().map(|row| row.to_vec()).collect()
}

fn mat_f32<A: Alphabet>(m: &DenseMatrix<f32, A::K>) -> Vec<Vec<u32>> {
    m.iter().map(|row| row.iter().map(|x| x.to_bits()).collect()).collect()
}

type Item = Option<Result<GotRec, String>>;

/// A reader under test behind one interface.
trait Driver {
    fn next_item(&mut self) -> Item;
    /// Hand the reader itself (not a `&mut` to it) to a consuming adaptor.
    fn consume(self: Box<Self>, style: u8) -> Consumed;
}

enum Consumed {
    Items(Vec<Result<GotRec, String>>),
    Count(usize),
    Last(Option<Result<GotRec, String>>),
}

fn consume_iter<I: Iterator, F: Fn(I::Item) -> Result<GotRec, String>>(it: I, style: u8, conv: F) -> Consumed {
    match style {
        1 => {
            let mut v = Vec::new();
            it.for_each(|r| v.push(conv(r)));
            Consumed::Items(v)
        }
        2 => Consumed::Items(it.collect::<Vec<_>>().into_iter().map(conv).collect()),
        3 => Consumed::Count(it.count()),
        _ => Consumed::Last(it.last().map(conv)),
    }
}

struct JasparD<B: std::io::BufRead>(lightmotif_io::jaspar::Reader<B>);
impl<B: std::io::BufRead> Driver for JasparD<B> {
    fn next_item(&mut self) -> Item {
        self.0.next().map(|r| {
            r.map(|rec| GotRec {
                id: Some(rec.id().to_string()),
                desc: rec.description().map(String::from),
                rows: rec.matrix().matrix().rows(),
                u32s: Some(mat_u32::<Dna>(rec.matrix().matrix())),
                debug_hash: fnv(&format!("{:?}", rec)),
                ..Default::default()
            })
            .map_err(|e| e.to_string())
        })
    }
    fn consume(self: Box<Self>, style: u8) -> Consumed {
        let me = *self;
        consume_iter(me.0, style, |r| {
            r.map(|rec| GotRec {
                id: Some(rec.id().to_string()),
                desc: rec.description().map(String::from),
                rows: rec.matrix().matrix().rows(),
                u32s: Some(mat_u32::<Dna>(rec.matrix().matrix())),
                debug_hash: fnv(&format!("{:?}", rec)),
                ..Default::default()
            })
            .map_err(|e| e.to_string())
        })
    }
}

struct Jaspar16D<B: std::io::BufRead, A: Alphabet>(lightmotif_io::jaspar16::Reader<B, A>);
impl<B: std::io::BufRead, A: Alphabet> Driver for Jaspar16D<B, A> {
    fn next_item(&mut self) -> Item {
        self.0.next().map(|r| {
            r.map(|rec| GotRec {
                id: Some(rec.id().to_string()),
                desc: rec.description().map(String::from),
                rows: rec.matrix().matrix().rows(),
                u32s: Some(mat_u32::<A>(rec.matrix().matrix())),
                debug_hash: fnv(&format!("{:?}", rec)),
                ..Default::default()
            })
            .map_err(|e| e.to_string())
        })
    }
    fn consume(self: Box<Self>, style: u8) -> Consumed {
        let me = *self;
        consume_iter(me.0, style, |r| {
            r.map(|rec| GotRec {
                id: Some(rec.id().to_string()),
                desc: rec.description().map(String::from),
                rows: rec.matrix().matrix().rows(),
                u32s: Some(mat_u32::<A>(rec.matrix().matrix())),
                debug_hash: fnv(&format!("{:?}", rec)),
                ..Default::default()
            })
            .map_err(|e| e.to_string())
        })
    }
}

struct UniprobeD<B: std::io::BufRead, A: Alphabet>(lightmotif_io::uniprobe::Reader<B, A>);
impl<B: std::io::BufRead, A: Alphabet> Driver for UniprobeD<B, A> {
    fn next_item(&mut self) -> Item {
        self.0.next().map(|r| {
            r.map(|rec| GotRec {
                id: Some(rec.id().to_string()),
                rows: rec.matrix().matrix().rows(),
                f32s: Some(mat_f32::<A>(rec.matrix().matrix())),
                debug_hash: fnv(&format!("{:?}", rec)),
                ..Default::default()
            })
            .map_err(|e| e.to_string())
        })
    }
    fn consume(self: Box<Self>, style: u8) -> Consumed {
        let me = *self;
        consume_iter(me.0, style, |r| {
            r.map(|rec| GotRec {
                id: Some(rec.id().to_string()),
                rows: rec.matrix().matrix().rows(),
                f32s: Some(mat_f32::<A>(rec.matrix().matrix())),
                debug_hash: fnv(&format!("{:?}", rec)),
                ..Default::default()
            })
            .map_err(|e| e.to_string())
        })
    }
}

struct TransfacD<B: std::io::BufRead, A: Alphabet>(lightmotif_io::transfac::Reader<B, A>);
impl<B: std::io::BufRead, A: Alphabet> Driver for TransfacD<B, A> {
    fn next_item(&mut self) -> Item {
        self.0.next().map(|r| {
            r.map(|rec| GotRec {
                id: rec.id().map(String::from),
                desc: rec.description().map(String::from),
                acc: rec.accession().map(String::from),
                name: rec.name().map(String::from),
                rows: rec.data().map(|d| d.rows()).unwrap_or(0),
                f32s: rec.data().map(|d| mat_f32::<A>(d)),
                counts: Some(rec.to_counts().map(|c| mat_u32::<A>(c.matrix()))),
                refs: Some(rec.references().len()),
                debug_hash: fnv(&format!("{:?}", rec)),
                ..Default::default()
            })
            .map_err(|e| e.to_string())
        })
    }
    fn consume(self: Box<Self>, style: u8) -> Consumed {
        let me = *self;
        consume_iter(me.0, style, |r| {
            r.map(|rec| GotRec {
                id: rec.id().map(String::from),
                desc: rec.description().map(String::from),
                acc: rec.accession().map(String::from),
                name: rec.name().map(String::from),
                rows: rec.data().map(|d| d.rows()).unwrap_or(0),
                f32s: rec.data().map(|d| mat_f32::<A>(d)),
                counts: Some(rec.to_counts().map(|c| mat_u32::<A>(c.matrix()))),
                refs: Some(rec.references().len()),
                debug_hash: fnv(&format!("{:?}", rec)),
                ..Default::default()
            })
            .map_err(|e| e.to_string())
        })
    }
}

fn open_with<B: std::io::BufRead + 'static>(format: Format, b: B) -> Box<dyn Driver> {
    match format {
        Format::Jaspar => Box::new(JasparD(lightmotif_io::jaspar::read(b))),
        Format::Jaspar16Dna => Box::new(Jaspar16D::<B, Dna>(lightmotif_io::jaspar16::read(b))),
        Format::Jaspar16Protein => Box::new(Jaspar16D::<B, Protein>(lightmotif_io::jaspar16::read(b))),
        Format::TransfacDna => Box::new(TransfacD::<B, Dna>(lightmotif_io::transfac::read(b))),
        Format::TransfacProtein => Box::new(TransfacD::<B, Protein>(lightmotif_io::transfac::read(b))),
        Format::UniprobeDna => Box::new(UniprobeD::<B, Dna>(lightmotif_io::uniprobe::read(b))),
        Format::UniprobeProtein => Box::new(UniprobeD::<B, Protein>(lightmotif_io::uniprobe::read(b))),
    }
}

fn open(format: Format, src: SimSource, t: &Transport) -> Box<dyn Driver> {
    match t.mode {
        Mode::Direct => open_with(format, src),
        Mode::Wrapped => open_with(format, BufReader::with_capacity(t.cap.max(1), src)),
    }
}

// --- expected values from the model -------------------------------------------------------------

fn alphabet_index(format: Format, ch: char) -> usize {
    if format.is_protein() {
        <Protein as Alphabet>::Symbol::from_char(ch).unwrap().as_index()
    } else {
        <Dna as Alphabet>::Symbol::from_char(ch).unwrap().as_index()
    }
}

fn expected_u32(format: Format, rec: &Rec) -> Vec<Vec<u32>> {
    let k = format.alphabet().len();
    let mut m = vec![vec![0u32; k]; rec.width];
    for (s, ch) in rec.syms.chars().enumerate() {
        let j = alphabet_index(format, ch);
        for p in 0..rec.width {
            m[p][j] = rec.cell(s, p).parse::<u32>().expect("HARNESS: model cell is not a u32");
        }
    }
    m
}

fn expected_f32(format: Format, rec: &Rec) -> Vec<Vec<u32>> {
    let k = format.alphabet().len();
    let mut m = vec![vec![0f32.to_bits(); k]; rec.width];
    for (s, ch) in rec.syms.chars().enumerate() {
        let j = alphabet_index(format, ch);
        for p in 0..rec.width {
            m[p][j] = rec
                .cell(s, p)
                .parse::<f32>()
                .expect("HARNESS: model cell is not a float")
                .to_bits();
        }
    }
    m
}

fn compare(format: Format, i: usize, rec: &Rec, got: &GotRec) -> Option<(String, String)> {
    let mism = |field: &str, want: String, have: String| {
        Some((
            field.to_string(),
            format!("record {}: {} expected {} got {}", i, field, want, have),
        ))
    };
    match format.family() {
        "jaspar" | "jaspar16" => {
            if got.id.as_deref() != Some(rec.id.as_str()) {
                return mism("id", format!("{:?}", rec.id), format!("{:?}", got.id));
            }
            if got.desc != rec.desc {
                return mism("description", format!("{:?}", rec.desc), format!("{:?}", got.desc));
            }
            let want = expected_u32(format, rec);
            if got.rows != rec.width {
                return mism("rows", rec.width.to_string(), got.rows.to_string());
            }
            if got.u32s.as_ref() != Some(&want) {
                return mism("matrix", format!("{:?}", want), format!("{:?}", got.u32s));
            }
        }
        "uniprobe" => {
            if got.id.as_deref() != Some(rec.id.trim()) {
                return mism("id", format!("{:?}", rec.id), format!("{:?}", got.id));
            }
            let want = expected_f32(format, rec);
            if got.rows != rec.width {
                return mism("rows", rec.width.to_string(), got.rows.to_string());
            }
            if got.f32s.as_ref() != Some(&want) {
                return mism("matrix", format!("{:?}", want), format!("{:?}", got.f32s));
            }
        }
        _ => {
            let want_id = rec.transfac_field("ID");
            let want_ac = rec.transfac_field("AC");
            let want_na = rec.transfac_field("NA");
            let want_de = rec.transfac_field("DE");
            if got.id != want_id {
                return mism("id", format!("{:?}", want_id), format!("{:?}", got.id));
            }
            if got.acc != want_ac {
                return mism("accession", format!("{:?}", want_ac), format!("{:?}", got.acc));
            }
            if got.name != want_na {
                return mism("name", format!("{:?}", want_na), format!("{:?}", got.name));
            }
            if got.desc != want_de {
                return mism("description", format!("{:?}", want_de), format!("{:?}", got.desc));
            }
            let want = expected_f32(format, rec);
            if got.rows != rec.width {
                return mism("rows", rec.width.to_string(), got.rows.to_string());
            }
            if got.f32s.as_ref() != Some(&want) {
                return mism("matrix", format!("{:?}", want), format!("{:?}", got.f32s));
            }
            if got.refs != Some(rec.transfac_refs()) {
                return mism("references", rec.transfac_refs().to_string(), format!("{:?}", got.refs));
            }
            // to_counts(): integer-valued cells give the same table as u32, others give None
            // (cells above 2^24 are rounded by the f32 record, so the written integer is not what to_counts
            // can return: for those records only the f32 matrix above is compared)
            let all_int = rec.cells.iter().all(|c| {
                !c.is_empty() && c.bytes().all(|b| b.is_ascii_digit()) && c.parse::<u64>().map_or(false, |v| v <= 1 << 24)
            });
            let want_counts = if all_int { Some(expected_u32(format, rec)) } else { None };
            let have = got.counts.clone().unwrap_or(None);
            let frac_present = rec.cells.iter().any(|c| {
                c.parse::<f32>().map(|x| x.round() != x).unwrap_or(false)
            });
            if all_int && have != want_counts {
                return mism("to_counts", format!("{:?}", want_counts), format!("{:?}", have));
            }
            if frac_present && have.is_some() {
                return mism("to_counts", "None".to_string(), format!("{:?}", have));
            }
        }
    }
    None
}

// --- token class at a chunk boundary (coverage measure) -------------------------------------------

fn boundary_class(text: &[u8], o: usize) -> &'static str {
    if o == 0 || o >= text.len() {
        return "edge";
    }
    let a = text[o - 1];
    let b = text[o];
    if a == b'/' && b == b'/' {
        "in-terminator"
    } else if b == b'>' {
        "before-gt"
    } else if a == b'>' {
        "after-gt"
    } else if a == b'\n' {
        "line-start"
    } else if b == b'\n' {
        "before-newline"
    } else if a.is_ascii_digit() && b.is_ascii_digit() {
        "in-number"
    } else if (a == b'.' && b.is_ascii_digit()) || (b == b'.' && a.is_ascii_digit()) {
        "in-decimal"
    } else if a >= 0x80 && b >= 0x80 && (b & 0xC0) == 0x80 {
        "in-utf8-char"
    } else if (a == b' ' || a == b'\t') && (b == b' ' || b == b'\t') {
        "in-space-run"
    } else if a == b' ' || a == b'\t' || b == b' ' || b == b'\t' {
        "at-space"
    } else if a.is_ascii_alphabetic() && b.is_ascii_alphabetic() {
        "in-word"
    } else {
        "other"
    }
}

// --- the simulator ---------------------------------------------------------------------------------

pub struct StreamSim;

fn read_repo_file(path: &str) -> Vec<u8> {
    std::fs::read(format!("/repo/{}", path)).unwrap_or_else(|e| {
        eprintln!("HARNESS: cannot read bundled file /repo/{}: {}", path, e);
        std::process::exit(2);
    })
}

/// Drive a reader to the first error or end of input. Returns the items and whether it finished.
struct Drive {
    items: Vec<Result<GotRec, String>>,
    ended: bool,
    nones_after_end: u32,
}

fn tags_for(sc: &Sc) -> String {
    format!("format={}", sc.input.format().family())
}

fn drive(
    o: &mut Outcome,
    sc: &Sc,
    text: Rc<Vec<u8>>,
    transport: &Transport,
    max_items: usize,
    extra_nexts: u32,
) -> Option<Drive> {
    let format = sc.input.format();
    let (src, stats) = SimSource::new(text.clone(), transport);
    let mut result = Drive {
        items: Vec::new(),
        ended: false,
        nones_after_end: 0,
    };
    let fail = |o: &mut Outcome, p: crate::kit::Panicked, at: &str| {
        if p.msg.contains(BUDGET_MSG) {
            o.violate(Violation::new(
                "no-progress",
                tags_for(sc),
                format!("{}: stream source polled beyond its step budget", at),
            ));
        } else {
            o.violate(Violation::new(p.class(), tags_for(sc), format!("{}: {}", at, p.msg)));
        }
    };
    let mut drv = match sut(|| open(format, src, transport)) {
        Ok(d) => d,
        Err(p) => {
            fail(o, p, "Reader::new");
            fold_stats(o, &stats);
            return None;
        }
    };
    ev!(o.trace, "open {} calls={}", format.as_str(), stats.borrow().calls);
    loop {
        let item = match sut(|| drv.next_item()) {
            Ok(i) => i,
            Err(p) => {
                fail(o, p, &format!("next() #{}", result.items.len()));
                fold_stats(o, &stats);
                // the reader may be in an inconsistent state: forget it rather than drop it under
                // unwinding expectations
                let _ = sut(move || drop(drv));
                return None;
            }
        };
        match item {
            None => {
                ev!(o.trace, "next -> None pos_calls={}", stats.borrow().calls);
                result.ended = true;
                break;
            }
            Some(Ok(r)) => {
                ev!(o.trace, "next -> Ok id={:?} acc={:?} rows={} h={:016x}", r.id, r.acc, r.rows, r.debug_hash);
                result.items.push(Ok(r));
            }
            Some(Err(e)) => {
                ev!(o.trace, "next -> Err {}", e);
                result.items.push(Err(e));
                break;
            }
        }
        if result.items.len() > max_items {
            o.violate(Violation::new(
                "no-progress",
                tags_for(sc),
                format!("consumer saw more than {} items from a {}-byte input", max_items, text.len()),
            ));
            break;
        }
    }
    if result.ended {
        for k in 0..extra_nexts {
            match sut(|| drv.next_item()) {
                Ok(None) => result.nones_after_end += 1,
                Ok(Some(_)) => {
                    ev!(o.trace, "next after end #{} -> Some", k);
                }
                Err(p) => {
                    fail(o, p, "next() after end of input");
                    break;
                }
            }
        }
    }
    if let Err(p) = sut(move || drop(drv)) {
        fail(o, p, "drop(reader)");
    }
    fold_stats(o, &stats);
    Some(result)
}

fn fold_stats(o: &mut Outcome, stats: &Rc<std::cell::RefCell<crate::seam::stream::SrcStats>>) {
    let st = stats.borrow();
    o.steps += st.calls;
    if st.eintr_fired > 0 {
        *o.faults.entry("eintr").or_insert(0) += st.eintr_fired;
    }
    if st.hard_fired > 0 {
        *o.faults.entry("hard-io-error").or_insert(0) += 1;
    }
    o.scratch_boundaries.extend(st.boundaries.iter().copied());
    ev!(o.trace, "source calls={} fetches={} bytes={} digest={:016x}", st.calls, st.fetches, st.bytes, st.digest);
}

impl StreamSim {
    fn run_exact(sc: &Sc, o: &mut Outcome) {
        let format = sc.input.format();
        o.probe(match format {
            Format::Jaspar => "format=jaspar",
            Format::Jaspar16Dna => "format=jaspar16-dna",
            Format::Jaspar16Protein => "format=jaspar16-protein",
            Format::TransfacDna => "format=transfac-dna",
            Format::TransfacProtein => "format=transfac-protein",
            Format::UniprobeDna => "format=uniprobe-dna",
            Format::UniprobeProtein => "format=uniprobe-protein",
        });
        o.probe(match sc.transport.mode {
            Mode::Direct => "transport=direct",
            Mode::Wrapped => "transport=wrapped-bufreader",
        });
        let (text, model, n_expected): (Rc<Vec<u8>>, Option<&FileModel>, Option<usize>) = match &sc.input {
            Input::Model(m) => (Rc::new(m.render()), Some(m), Some(m.records.len())),
            Input::Bundled { path, .. } => {
                let t = read_repo_file(path);
                let n = corpus::count_records(format, &t);
                (Rc::new(t), None, Some(n))
            }
            Input::Bytes { .. } => {
                eprintln!("HARNESS: raw bytes are not a C14 input");
                std::process::exit(2);
            }
        };
        if o.trace_kept() {
            ev!(o.trace, "input {:?}", String::from_utf8_lossy(&text[..text.len().min(600)]));
        }
        let n_rec = n_expected.unwrap_or(0);
        if let (Some((k, style)), Some(m)) = (sc.consume, model) {
            Self::run_exact_adaptor(sc, o, text.clone(), m, k as usize, style);
            return;
        }
        let d = match drive(o, sc, text.clone(), &sc.transport, n_rec + 2, 2) {
            Some(d) => d,
            None => return,
        };
        if o.failed() {
            return;
        }
        // record-by-record equality with the model
        if let Some(m) = model {
            for (i, rec) in m.records.iter().enumerate() {
                match d.items.get(i) {
                    None => {
                        o.violate(Violation::new(
                            "missing-record",
                            tags_for(sc),
                            format!("reader ended after {} of {} records", d.items.len(), m.records.len()),
                        ));
                        return;
                    }
                    Some(Err(e)) => {
                        o.violate(Violation::new(
                            "error-on-wellformed",
                            tags_for(sc),
                            format!("record {} of {}: reader returned error: {}", i, m.records.len(), e),
                        ));
                        return;
                    }
                    Some(Ok(got)) => {
                        if let Some((field, detail)) = compare(format, i, rec, got) {
                            o.violate(Violation::new(
                                "record-mismatch",
                                format!("{},field={}", tags_for(sc), field),
                                detail,
                            ));
                            return;
                        }
                    }
                }
            }
        } else {
            // bundled file: identical to the all-at-once parse
            let mut base_out = Outcome::new(false);
            let base = drive(&mut base_out, sc, text.clone(), &Transport::all_at_once(), n_rec + 2, 0);
            if let Some(v) = base_out.violation {
                o.violate(v);
                return;
            }
            let base = base.unwrap();
            if base.items != d.items {
                let first = base
                    .items
                    .iter()
                    .zip(d.items.iter())
                    .position(|(a, b)| a != b)
                    .unwrap_or(base.items.len().min(d.items.len()));
                o.violate(Violation::new(
                    "schedule-dependence",
                    tags_for(sc),
                    format!(
                        "parse under the schedule differs from the all-at-once parse at record {} ({} vs {} items)",
                        first,
                        d.items.len(),
                        base.items.len()
                    ),
                ));
                return;
            }
            if let Some(Err(e)) = d.items.last() {
                o.violate(Violation::new(
                    "error-on-wellformed",
                    tags_for(sc),
                    format!("bundled file: reader returned error after {} records: {}", d.items.len() - 1, e),
                ));
                return;
            }
        }
        if d.items.len() > n_rec {
            let what = match &d.items[n_rec] {
                Ok(r) => format!("extra record id={:?}", r.id),
                Err(e) => format!("error after the last record: {}", e),
            };
            o.violate(Violation::new("extra-item", tags_for(sc), what));
            return;
        }
        if d.items.len() < n_rec {
            o.violate(Violation::new(
                "missing-record",
                tags_for(sc),
                format!("reader ended after {} of {} records", d.items.len(), n_rec),
            ));
            return;
        }
        if !d.ended || d.nones_after_end != 2 {
            o.violate(Violation::new(
                "end-not-signalled",
                tags_for(sc),
                format!("ended={} further None results={}/2", d.ended, d.nones_after_end),
            ));
            return;
        }
        // coverage key
        let stats_boundaries = o.take_boundaries();
        let mut classes: BTreeSet<&'static str> = BTreeSet::new();
        for &b in &stats_boundaries {
            classes.insert(boundary_class(&text, b));
        }
        for c in &classes {
            match *c {
                "in-terminator" => o.probe("boundary-between-the-two-slashes"),
                "before-gt" => o.probe("boundary-right-before-gt"),
                "in-utf8-char" => o.probe("boundary-inside-utf8-char"),
                "in-number" => o.probe("boundary-inside-number"),
                _ => {}
            }
        }
        if sc.transport.eintr_total() > 0 && o.faults.get("eintr").copied().unwrap_or(0) > 0 {
            o.probe("eintr-fired-inside-read");
        }
        if text.len() > 4 * 8192 {
            o.probe("file-larger-than-4x-default-buffer");
        }
        if n_rec >= 2 && !stats_boundaries.is_empty() {
            let cap_class = match sc.transport.mode {
                Mode::Direct => "direct".to_string(),
                Mode::Wrapped => {
                    let c = sc.transport.cap;
                    if c <= 2 {
                        format!("cap{}", c)
                    } else if c < 64 {
                        "cap<64".to_string()
                    } else if c < text.len() {
                        "cap<len".to_string()
                    } else {
                        "cap>=len".to_string()
                    }
                }
            };
            let key = format!(
                "{}|{}|eintr={}|{}",
                format.as_str(),
                cap_class,
                (sc.transport.eintr_total() > 0) as u8,
                classes.into_iter().collect::<Vec<_>>().join("+")
            );
            o.cov = Some(key);
        }
    }

    /// C14 with a consuming adaptor: `k` records by next(), then for_each / collect / count / last on the
    /// reader itself. The file is well formed, so every adaptor must see exactly the remaining records.
    fn run_exact_adaptor(sc: &Sc, o: &mut Outcome, text: Rc<Vec<u8>>, m: &FileModel, k: usize, style: u8) {
        let format = sc.input.format();
        let n_rec = m.records.len();
        let name = match style {
            1 => "for_each",
            2 => "collect",
            3 => "count",
            _ => "last",
        };
        o.probe(match style {
            1 => "consumed-by-for_each",
            2 => "consumed-by-collect",
            3 => "consumed-by-count",
            _ => "consumed-by-last",
        });
        let tags = format!("{},consumer={}", tags_for(sc), name);
        let (src, stats) = SimSource::new(text.clone(), &sc.transport);
        let fail = |o: &mut Outcome, p: crate::kit::Panicked, at: &str| {
            if p.msg.contains(BUDGET_MSG) {
                o.violate(Violation::new("no-progress", tags.clone(), format!("{}: stream source polled beyond its step budget", at)));
            } else {
                o.violate(Violation::new(p.class(), tags.clone(), format!("{}: {}", at, p.msg)));
            }
        };
        let mut drv = match sut(|| open(format, src, &sc.transport)) {
            Ok(d) => d,
            Err(p) => {
                fail(o, p, "Reader::new");
                fold_stats(o, &stats);
                return;
            }
        };
        let mut items: Vec<Result<GotRec, String>> = Vec::new();
        let mut ended = false;
        for _ in 0..k {
            match sut(|| drv.next_item()) {
                Err(p) => {
                    fail(o, p, &format!("next() #{}", items.len()));
                    fold_stats(o, &stats);
                    let _ = sut(move || drop(drv));
                    return;
                }
                Ok(None) => {
                    ended = true;
                    break;
                }
                Ok(Some(it)) => {
                    let stop = it.is_err();
                    items.push(it);
                    if stop {
                        ended = true;
                        break;
                    }
                }
            }
        }
        let taken = items.len();
        let mut count_seen: Option<usize> = None;
        let mut last_seen: Option<Option<Result<GotRec, String>>> = None;
        if ended {
            let _ = sut(move || drop(drv));
        } else {
            match sut(move || drv.consume(style)) {
                Err(p) => {
                    fail(o, p, &format!("{}() after {} records", name, taken));
                    fold_stats(o, &stats);
                    return;
                }
                Ok(Consumed::Items(v)) => {
                    ev!(o.trace, "{} -> {} items", name, v.len());
                    items.extend(v);
                }
                Ok(Consumed::Count(n)) => {
                    ev!(o.trace, "count -> {}", n);
                    count_seen = Some(n);
                }
                Ok(Consumed::Last(x)) => {
                    ev!(o.trace, "last -> {:?}", x.as_ref().map(|r| r.as_ref().map(|g| g.id.clone())));
                    last_seen = Some(x);
                }
            }
        }
        fold_stats(o, &stats);
        // the records seen one by one (all of them for for_each / collect)
        for (i, got) in items.iter().enumerate() {
            match (m.records.get(i), got) {
                (None, Ok(r)) => {
                    o.violate(Violation::new("extra-item", tags.clone(), format!("extra record id={:?} after the {} records of the file", r.id, n_rec)));
                    return;
                }
                (_, Err(e)) => {
                    o.violate(Violation::new("error-on-wellformed", tags.clone(), format!("record {} of {}: reader returned error: {}", i, n_rec, e)));
                    return;
                }
                (Some(rec), Ok(g)) => {
                    if let Some((field, detail)) = compare(format, i, rec, g) {
                        o.violate(Violation::new("record-mismatch", format!("{},field={}", tags, field), detail));
                        return;
                    }
                }
            }
        }
        let owed = n_rec - taken.min(n_rec);
        match (count_seen, last_seen) {
            (Some(n), _) => {
                if n != owed {
                    o.violate(Violation::new(
                        if n < owed { "missing-record" } else { "extra-item" },
                        tags.clone(),
                        format!("count() after {} next() calls returned {} but {} of the {} records were still to come", taken, n, owed, n_rec),
                    ));
                    return;
                }
            }
            (_, Some(x)) => match (x, owed) {
                (None, 0) => {}
                (None, _) => {
                    o.violate(Violation::new("missing-record", tags.clone(), format!("last() after {} next() calls returned None but {} records were still to come", taken, owed)));
                    return;
                }
                (Some(Err(e)), _) => {
                    o.violate(Violation::new("error-on-wellformed", tags.clone(), format!("last() after {} next() calls returned an error: {}", taken, e)));
                    return;
                }
                (Some(Ok(g)), 0) => {
                    o.violate(Violation::new("extra-item", tags.clone(), format!("last() returned record id={:?} although all {} records had been taken", g.id, n_rec)));
                    return;
                }
                (Some(Ok(g)), _) => {
                    if let Some((field, detail)) = compare(format, n_rec - 1, &m.records[n_rec - 1], &g) {
                        o.violate(Violation::new("record-mismatch", format!("{},field={}", tags, field), format!("last(): {}", detail)));
                        return;
                    }
                }
            },
            _ => {
                if !ended && items.len() < n_rec {
                    o.violate(Violation::new("missing-record", tags.clone(), format!("{}() ended after {} of {} records ({} taken with next() before)", name, items.len(), n_rec, taken)));
                    return;
                }
                if ended && items.len() < n_rec {
                    o.violate(Violation::new("missing-record", tags.clone(), format!("reader ended after {} of {} records", items.len(), n_rec)));
                    return;
                }
            }
        }
        let _ = o.take_boundaries();
        if n_rec >= 2 {
            o.cov = Some(format!("{}|consumer={}|taken={}", format.as_str(), name, taken.min(2)));
        }
    }

    fn run_robust(sc: &Sc, o: &mut Outcome) {
        let (format, data) = match &sc.input {
            Input::Bytes { format, data, .. } => (*format, Rc::new(data.0.clone())),
            Input::Model(m) => (m.format, Rc::new(m.render())),
            Input::Bundled { format, path } => (*format, Rc::new(read_repo_file(path))),
        };
        o.probe(match format.family() {
            "jaspar" => "format=jaspar",
            "jaspar16" => "format=jaspar16",
            "transfac" => "format=transfac",
            _ => "format=uniprobe",
        });
        if o.trace_kept() {
            ev!(o.trace, "input {:?}", String::from_utf8_lossy(&data[..data.len().min(600)]));
        }
        if sc.transport.truncate.is_some() {
            o.fault("truncate(eof-as-crash-point)");
        }
        let d = drive(o, sc, data.clone(), &sc.transport, data.len() + 2, 1);
        if let Some(d) = &d {
            let n_ok = d.items.iter().filter(|i| i.is_ok()).count();
            match d.items.last() {
                Some(Err(_)) => o.probe("panic-free-err-returned"),
                _ => {
                    if d.ended {
                        o.probe("ended-with-none");
                    }
                }
            }
            if n_ok > 0 {
                o.probe("ok-record-returned-from-faulted-input");
            }
            if std::str::from_utf8(&data).is_err() {
                o.probe("invalid-utf8-reached-the-decoder");
            }
            let outcome_class = format!(
                "{}|ok{}|{}",
                format.family(),
                n_ok.min(3),
                match d.items.last() {
                    Some(Err(e)) => {
                        // coarse error class: first word(s)
                        let e = e.to_lowercase();
                        if e.contains("simulated") {
                            "io"
                        } else if e.contains("utf-8") || e.contains("decoding") {
                            "utf8"
                        } else if e.contains("invalid data") {
                            "invalid-data"
                        } else {
                            "parse"
                        }
                    }
                    _ => "end",
                }
            );
            let origin = match &sc.input {
                Input::Bytes { origin, .. } => origin.split(':').nth(1).unwrap_or("?").to_string(),
                _ => "model".to_string(),
            };
            o.cov = Some(format!("{}|{}", outcome_class, origin));
        }
    }
}

impl Outcome {
    pub fn trace_kept(&self) -> bool {
        self.trace.keeps()
    }
    fn take_boundaries(&mut self) -> Vec<usize> {
        std::mem::take(&mut self.scratch_boundaries)
    }
}

impl Sim for StreamSim {
    type Sc = Sc;
    const NAME: &'static str = "stream";

    fn plan(prop: &str, tier: Tier) -> Vec<Phase> {
        match (prop, tier) {
            ("C14", Tier::Quick) => vec![
                Phase { name: "generated", count: 600_000, exhaustive: false },
                Phase { name: "bundled-small", count: 8_000, exhaustive: false },
                Phase { name: "bundled-db", count: 64, exhaustive: false },
            ],
            ("C14", Tier::Thorough) => vec![
                Phase { name: "generated", count: 12_000_000, exhaustive: false },
                Phase { name: "bundled-small", count: 40_000, exhaustive: false },
                Phase { name: "bundled-db", count: 640, exhaustive: false },
            ],
            ("C15", t) => corpus::plan(t),
            _ => panic!("HARNESS: stream does not serve {}", prop),
        }
    }

    fn generate(prop: &str, tier: Tier, phase: &str, idx: u64, r: &mut Prng) -> Sc {
        match prop {
            "C14" => match phase {
                "generated" => {
                    let format = Format::ALL[(idx % 7) as usize];
                    let max_records = if idx % 97 == 0 { 400 } else { 40 };
                    let model = if idx % 5003 == 5002 { gen::gen_huge_file(r, format) } else { gen::gen_file(r, format, max_records) };
                    let text = model.render();
                    let transport = gen::gen_transport(r, &text, idx / 7);
                    // one file in six is consumed through an adaptor after a few next() calls
                    let consume = if idx % 6 == 5 { Some((r.heavy(0, 4) as u32, 1 + r.below(4) as u8)) } else { None };
                    Sc {
                        consume,
                        input: Input::Model(model),
                        transport,
                    }
                }
                "bundled-small" => {
                    let files = corpus::bundled_small();
                    let (format, path) = files[(idx as usize) % files.len()];
                    let text = read_repo_file(path);
                    let transport = gen::gen_transport(r, &text, idx / files.len() as u64);
                    Sc {
                        consume: None,
                        input: Input::Bundled { format, path: path.to_string() },
                        transport,
                    }
                }
                _ => {
                    let files = corpus::bundled_db();
                    let (format, path) = files[(idx as usize) % files.len()];
                    let text = read_repo_file(path);
                    let mut transport = gen::gen_transport(r, &text, idx / files.len() as u64);
                    // 1-byte schedules over a 700 kB file are slow and add nothing over small files
                    if transport.chunks == vec![1] {
                        transport.chunks = vec![r.range(3, 4096)];
                    }
                    if transport.mode == Mode::Wrapped && transport.cap < 16 {
                        transport.cap = r.range(16, 8192);
                    }
                    Sc {
                        consume: None,
                        input: Input::Bundled { format, path: path.to_string() },
                        transport,
                    }
                }
            },
            _ => corpus::generate(tier, phase, idx, r),
        }
    }

    fn run(prop: &str, sc: &Sc, keep_trace: bool) -> Outcome {
        let mut o = Outcome::new(keep_trace);
        match prop {
            "C14" => StreamSim::run_exact(sc, &mut o),
            _ => StreamSim::run_robust(sc, &mut o),
        }
        o
    }

    fn shrink(sc: &Sc) -> Vec<Sc> {
        let mut out = Vec::new();
        if let Some((k, style)) = sc.consume {
            let mut s = sc.clone();
            s.consume = None;
            out.push(s);
            if k > 0 {
                let mut s = sc.clone();
                s.consume = Some((k / 2, style));
                out.push(s);
            }
        }
        // transport simplifications first
        let t = &sc.transport;
        if !t.is_trivial() {
            let mut s = sc.clone();
            s.transport = Transport {
                truncate: t.truncate,
                error_at: t.error_at,
                ..Transport::all_at_once()
            };
            out.push(s);
        }
        if !t.eintr.is_empty() {
            let mut s = sc.clone();
            s.transport.eintr.clear();
            out.push(s);
        }
        if !t.cuts.is_empty() {
            let mut s = sc.clone();
            s.transport.cuts.clear();
            out.push(s);
            for i in 0..t.cuts.len() {
                let mut s = sc.clone();
                s.transport.cuts.remove(i);
                out.push(s);
            }
        }
        if t.mode == Mode::Wrapped {
            let mut s = sc.clone();
            s.transport.mode = Mode::Direct;
            out.push(s);
        }
        if t.chunks.len() > 1 {
            let mut s = sc.clone();
            s.transport.chunks = vec![t.chunks[0]];
            out.push(s);
            let mut s = sc.clone();
            s.transport.chunks = vec![1];
            out.push(s);
        }
        if !t.chunks.is_empty() {
            let mut s = sc.clone();
            s.transport.chunks.clear();
            out.push(s);
        }
        match &sc.input {
            Input::Model(m) => {
                let n = m.records.len();
                // drop halves, then single records
                if n > 1 {
                    for (a, b) in [(0, n / 2), (n / 2, n)] {
                        let mut s = sc.clone();
                        if let Input::Model(mm) = &mut s.input {
                            mm.records.drain(a..b);
                        }
                        s.transport.cuts.clear();
                        out.push(s);
                    }
                    if n <= 24 {
                        for i in 0..n {
                            let mut s = sc.clone();
                            if let Input::Model(mm) = &mut s.input {
                                mm.records.remove(i);
                            }
                            s.transport.cuts.clear();
                            out.push(s);
                        }
                    }
                }
                if m.version.is_some() {
                    let mut s = sc.clone();
                    if let Input::Model(mm) = &mut s.input {
                        mm.version = None;
                    }
                    out.push(s);
                }
                for (i, rec) in m.records.iter().enumerate().take(6) {
                    if rec.width > 1 {
                        let mut s = sc.clone();
                        if let Input::Model(mm) = &mut s.input {
                            let r = &mut mm.records[i];
                            let nw = r.width / 2;
                            let mut cells = Vec::new();
                            for sidx in 0..r.syms.len() {
                                for p in 0..nw {
                                    cells.push(r.cells[sidx * r.width + p].clone());
                                }
                            }
                            r.cells = cells;
                            r.width = nw;
                        }
                        out.push(s);
                    }
                    if rec.desc.is_some() {
                        let mut s = sc.clone();
                        if let Input::Model(mm) = &mut s.input {
                            mm.records[i].desc = None;
                        }
                        out.push(s);
                    }
                    for j in 0..rec.pre.len() {
                        // RN blocks must go as a whole; drop only single-line items
                        let l = &rec.pre[j];
                        if l.starts_with("RN") || l.starts_with("RX") || l.starts_with("RA") || l.starts_with("RT") || l.starts_with("RL") {
                            continue;
                        }
                        let mut s = sc.clone();
                        if let Input::Model(mm) = &mut s.input {
                            mm.records[i].pre.remove(j);
                        }
                        out.push(s);
                    }
                    if !rec.post.is_empty() {
                        let mut s = sc.clone();
                        if let Input::Model(mm) = &mut s.input {
                            mm.records[i].post.clear();
                        }
                        out.push(s);
                    }
                    if rec.style % 3 != 0 {
                        let mut s = sc.clone();
                        if let Input::Model(mm) = &mut s.input {
                            mm.records[i].style = 0;
                        }
                        out.push(s);
                    }
                    if rec.cells.iter().any(|c| c != "1" && c != "0.250") && rec.syms.len() * rec.width <= 16 {
                        // simplify cell values
                        let mut s = sc.clone();
                        if let Input::Model(mm) = &mut s.input {
                            if mm.format.family() != "uniprobe" {
                                for c in mm.records[i].cells.iter_mut() {
                                    *c = "1".to_string();
                                }
                                out.push(s);
                            }
                        }
                    }
                }
            }
            Input::Bytes { format, data, origin } => {
                let bytes = &data.0;
                let n = bytes.len();
                let mk = |v: Vec<u8>| Sc {
                    consume: None,
                    input: Input::Bytes {
                        format: *format,
                        data: Blob(v),
                        origin: origin.clone(),
                    },
                    transport: Transport {
                        truncate: None,
                        ..sc.transport.clone()
                    },
                };
                if let Some(tr) = sc.transport.truncate {
                    // make the truncation explicit in the bytes
                    out.push(mk(bytes[..tr.min(n)].to_vec()));
                }
                // ddmin over byte ranges
                let mut size = n / 2;
                while size >= 1 {
                    let mut start = 0;
                    let mut produced = 0;
                    while start < n && produced < 64 {
                        let end = (start + size).min(n);
                        let mut v = bytes[..start].to_vec();
                        v.extend_from_slice(&bytes[end..]);
                        out.push(mk(v));
                        start = end;
                        produced += 1;
                    }
                    if size == 1 {
                        break;
                    }
                    size /= 2;
                }
                // canonicalise bytes
                for i in 0..n.min(64) {
                    let b = bytes[i];
                    if b.is_ascii_digit() && b != b'1' {
                        let mut v = bytes.clone();
                        v[i] = b'1';
                        out.push(mk(v));
                    }
                }
            }
            Input::Bundled { .. } => {}
        }
        out
    }

    fn size(sc: &Sc) -> BTreeMap<&'static str, u64> {
        let mut m = BTreeMap::new();
        match &sc.input {
            Input::Model(f) => {
                m.insert("records", f.records.len() as u64);
                m.insert("bytes", f.render().len() as u64);
            }
            Input::Bytes { data, .. } => {
                m.insert("bytes", data.0.len() as u64);
            }
            Input::Bundled { .. } => {}
        }
        m.insert("chunks", sc.transport.chunks.len() as u64);
        m.insert("cuts", sc.transport.cuts.len() as u64);
        m.insert("eintr", sc.transport.eintr_total());
        m
    }

    fn rule(prop: &str) -> String {
        match prop {
            "C14" => "Cases: a grammar-driven generator writes a well-formed file of 1..400 records in one of 7 format/alphabet variants together with its reference model, plus the repository's bundled files; each is delivered under a generated transport (direct BufRead or BufReader of capacity 1..len+1; chunk schedule; structure-aimed cuts at delimiters; EINTR plan); the consumer loops on next() or, for one generated file in six, takes 0..4 records with next() and hands the reader to a consuming adaptor (for_each, collect, count, last). Distinct = distinct tuples (format, capacity class, EINTR yes/no, set of token classes at the chunk boundaries that actually occurred). Non-trivial = the file has >= 2 records and at least one chunk boundary fell strictly inside the data.".to_string(),
            _ => "Cases: every single fault (EOF at each byte, each single-byte substitution from a 19-value set, each single-byte deletion, each single-byte insertion, a hard I/O error at each offset) over a fixed corpus of valid and edge-case files for the 4 formats, each under 3 delivery schedules, plus seeded multi-fault and arbitrary-byte inputs, large valid files (whole / cut / late mutation), pathological repetition, multi-byte text after an early fault, and keyword splices (whole keywords - the string literals of the parser sources of the tree under test plus keywords of the formats as found in the wild - replacing a word of a line, in a cloned line, or starting a new line followed by the tail of another line or by as many small numbers as a neighbouring row has fields; numbers replaced by boundary labels). Distinct = distinct tuples (format family, number of records returned (capped at 3), how the iteration ended: end / parse error / invalid data / utf8 / io, fault kind). Non-trivial = the reader was constructed and driven to its first error or end of input (every run).".to_string(),
        }
    }

    fn required_probes(prop: &str, _tier: Tier) -> Vec<&'static str> {
        match prop {
            "C14" => vec!["boundary-inside-number", "eintr-fired-inside-read", "boundary-right-before-gt", "boundary-between-the-two-slashes"],
            _ => vec!["panic-free-err-returned", "ok-record-returned-from-faulted-input", "invalid-utf8-reached-the-decoder"],
        }
    }

    fn level(prop: &str) -> &'static str {
        match prop {
            "C15" => "fault_enumeration",
            _ => "exploration",
        }
    }

    fn components(_prop: &str) -> (Vec<String>, Vec<String>) {
        (
            vec!["lightmotif-io (all four readers and their nom parsers)".into(), "lightmotif (matrix types)".into(), "std::io::BufReader / read_until / read_line".into()],
            vec!["byte source (SimSource: Read + BufRead)".into()],
        )
    }

    fn assumptions(prop: &str) -> Vec<String> {
        match prop {
            "C14" => vec![
                "Well-formedness is conservative: only syntax shown in the module docs, unit tests and bundled files, plus the variations the property names (symbol order / subsets, optional metadata, spacing).".into(),
                "The reference model parses cell tokens with Rust's str::parse, which is what nom's complete::float / u32 use.".into(),
                "Stream faults limited to those that must be invisible: chunking, reader capacity, EINTR.".into(),
            ],
            _ => vec![
                "Consumer stops at the first error or at end of input (retry-after-error is out of scope).".into(),
                "A hard I/O error is sticky: once raised, every later call raises it too.".into(),
                "Hangs that never touch the stream are caught only by the parent's 120 s watchdog.".into(),
            ],
        }
    }
}
