//! Corpus and fault enumeration for C15, plus the list of bundled files used by C14.
//!
//! The corpus is fixed (it does not depend on VERIF_SEED): the repository's own small test files,
//! generated well-formed files (fixed generator seeds) and hand-written edge files. Single faults
//! over it are enumerated exhaustively; VERIF_SEED only drives the sampled phases.

use std::sync::OnceLock;

use super::gen;
use super::model::Format;
use super::{Blob, Input, Sc};
use crate::kit::{Phase, Prng, Tier};
use crate::seam::stream::{HardKind, Mode, Transport};

pub fn bundled_small() -> &'static [(Format, &'static str)] {
    &[
        (Format::UniprobeDna, "lightmotif-io/tests/Cha4.uniprobe"),
        (Format::UniprobeDna, "lightmotif-io/tests/Gal4.uniprobe"),
        (Format::UniprobeDna, "lightmotif-io/tests/demo.uniprobe"),
        (Format::TransfacDna, "lightmotif-io/tests/M00005.transfac"),
        (Format::TransfacDna, "lightmotif-io/tests/MA0001.2.transfac"),
        (Format::TransfacDna, "lightmotif-io/tests/MX000001.transfac"),
        (Format::Jaspar16Dna, "lightmotif-io/tests/MA0001.3.pfm"),
        (Format::Jaspar16Dna, "lightmotif-io/tests/MA0017.3.pfm"),
    ]
}

pub fn bundled_db() -> &'static [(Format, &'static str)] {
    &[
        (Format::Jaspar16Dna, "lightmotif-io/benches/JASPAR2024.pwm"),
        (Format::TransfacDna, "lightmotif-io/benches/prodoric.transfac"),
    ]
}

/// The harness's own count of records in a bundled file (header / terminator lines).
pub fn count_records(format: Format, text: &[u8]) -> usize {
    let lines = text.split(|&b| b == b'\n');
    match format.family() {
        "jaspar" | "jaspar16" => lines.filter(|l| l.starts_with(b">")).count(),
        "transfac" => {
            let n = text.split(|&b| b == b'\n').filter(|l| l.starts_with(b"//")).count();
            if text.starts_with(b"VV") {
                n.saturating_sub(1)
            } else {
                n
            }
        }
        _ => lines
            .filter(|l| {
                let t: &[u8] = l;
                let blank = t.iter().all(|b| b.is_ascii_whitespace());
                let column = t.len() >= 3 && t[1] == b':' && t[2] == b'\t';
                !blank && !column
            })
            .count(),
    }
}

pub struct CorpusFile {
    pub name: String,
    pub format: Format,
    pub data: Vec<u8>,
}

const SUBST: [u8; 19] = [
    0, b'\n', b'\r', b' ', b'\t', b'>', b'/', b'[', b']', b':', b'-', b'.', b'e', b'9', b'A', b'N', b'X', 0x80, 0xFF,
];

fn edge_files() -> Vec<(Format, &'static str, &'static [u8])> {
    let j = Format::Jaspar;
    let j16 = Format::Jaspar16Dna;
    let j16p = Format::Jaspar16Protein;
    let t = Format::TransfacDna;
    let u = Format::UniprobeDna;
    vec![
        (j, "empty", b""),
        (j, "newline", b"\n"),
        (j, "space", b" "),
        (j, "gt", b">"),
        (j, "gt-nl", b">\n"),
        (j, "header-only", b">ID\n"),
        (j, "header-no-nl", b">ID desc"),
        (j, "ragged", b">A\n1 2\n1 2 3\n1 2\n1 2\n"),
        (j, "no-final-newline", b">A\n1 2\n1 2\n1 2\n1 2"),
        (j, "crlf", b">A\r\n1 2\r\n1 2\r\n1 2\r\n1 2\r\n"),
        (j, "blank-lines", b"\n\n>A\n1\n1\n1\n1\n\n\n>B\n2\n2\n2\n2\n"),
        (j, "junk-before", b"junk before\n>A\n1\n1\n1\n1\n"),
        (j, "empty-rows", b">A\n\n\n\n\n"),
        (j, "overflow", b">A\n99999999999 1\n1 1\n1 1\n1 1\n"),
        (j, "three-rows", b">A\n1 2\n1 2\n1 2\n>B\n1\n1\n1\n1\n"),
        (j, "gt-in-desc", b">A x>y\n1\n1\n1\n1\n"),
        (j16, "empty", b""),
        (j16, "gt", b">"),
        (j16, "header-only", b">ID\n"),
        (j16, "dup-symbol", b">A\nA [ 1 2 ]\nA [ 1 2 ]\n"),
        (j16, "ragged", b">A\nA [ 1 2 ]\nC [ 1 ]\n"),
        (j16, "bad-symbol", b">A\nZ [ 1 ]\n"),
        (j16, "empty-counts", b">A\nA [ ]\n"),
        (j16, "unclosed", b">A\nA [ 1 2\n"),
        (j16, "no-final-newline", b">A\nA [ 1 2 ]\nC [ 1 2 ]"),
        (j16, "blank-lines", b">A\nA [ 1 ]\n\n>B\nC [ 2 ]\n"),
        (j16, "crlf", b">A\r\nA [ 1 ]\r\nC [ 2 ]\r\n"),
        (j16p, "protein", b">P\nW [ 1 2 ]\nX [ 0 0 ]\nY [ 3 4 ]\n"),
        (t, "empty", b""),
        (t, "vv", b"VV"),
        (t, "vv-line", b"VV  x\n"),
        (t, "vv-only-header", b"VV  x\nXX\n//\n"),
        (t, "cut-in-p0", b"AC M1\nP0  "),
        (t, "p0-no-newline", b"AC M1\nP0 A C G T"),
        (t, "no-terminator", b"AC  M1\nXX\nP0      A      C      G      T\n01      1      2      2      0      S\n"),
        (t, "terminator-only", b"//\n"),
        (t, "terminator-no-nl", b"//"),
        (t, "xx-only", b"XX\n"),
        (t, "no-matrix", b"AC  M1\n//\n"),
        (t, "matrix-no-rows", b"P0 A C G T\n//\n"),
        (t, "bad-date", b"DT  99.99.99999 (created); x.\n//\n"),
        (t, "rn-only", b"RN  [1]\n"),
        (t, "rn-short", b"RN"),
        (t, "one-char", b"R"),
        (t, "rn-then-eof", b"AC  M1\nRN  [1]; RE1.\nR"),
        (t, "row-short", b"P0 A C G T\n01 1 2 3\n//\n"),
        (t, "crlf", b"AC  M1\r\nP0 A C G T\r\n01 1 2 3 4 N\r\n//\r\n"),
        (t, "blank-between", b"AC  M1\nP0 A\n01 1\n//\n\nAC  M2\nP0 C\n01 2\n//\n"),
        (u, "empty", b""),
        (u, "id-only", b"ID\n"),
        (u, "id-no-nl", b"ID"),
        (u, "bad-sum", b"ID\nA:\t0.5\n"),
        (u, "ragged", b"ID\nA:\t0.25\t0.25\nC:\t0.25\nG:\t0.25\t0.25\nT:\t0.25\t0.25\n"),
        (u, "dup-symbol", b"ID\nA:\t1\nA:\t1\n"),
        (u, "blank-only", b"\n\n\n"),
        (u, "bad-symbol", b"ID\nZ:\t1\n"),
        (u, "no-final-newline", b"ID\nA:\t1"),
        (u, "nan-inf", b"ID\nA:\tnan\nC:\tinf\n"),
        (u, "crlf", b"ID\r\nA:\t1\r\n"),
        (u, "two-ids", b"ID1\nID2\nA:\t1\n"),
    ]
}

fn build_corpus(tier: Tier) -> Vec<CorpusFile> {
    let mut v = Vec::new();
    for (format, path) in bundled_small() {
        // keep the enumeration affordable: bundled files are at most ~2.3 kB
        let data = std::fs::read(format!("/repo/{}", path)).unwrap_or_else(|e| {
            eprintln!("HARNESS: cannot read bundled file /repo/{}: {}", path, e);
            std::process::exit(2);
        });
        if tier == Tier::Quick && data.len() > 700 {
            continue;
        }
        v.push(CorpusFile {
            name: path.rsplit('/').next().unwrap().to_string(),
            format: *format,
            data,
        });
    }
    let per_format = if tier == Tier::Quick { 3 } else { 24 };
    for (fi, format) in Format::ALL.iter().enumerate() {
        for k in 0..per_format {
            let mut r = Prng::new(0xC0FFEE ^ ((fi as u64) << 32) ^ k as u64);
            // small files: 1..3 records, narrow
            let mut m = gen::gen_file(&mut r, *format, 3);
            m.records.truncate(1 + (k % 3));
            for rec in m.records.iter_mut() {
                let nw = rec.width.min(1 + (k % 5));
                let mut cells = Vec::new();
                for s in 0..rec.syms.len() {
                    for p in 0..nw {
                        cells.push(rec.cells[s * rec.width + p].clone());
                    }
                }
                rec.cells = cells;
                rec.width = nw;
                if rec.pre.len() > 4 {
                    rec.pre.truncate(4);
                    // an RN block must not be cut in the middle: drop trailing reference lines
                    while rec
                        .pre
                        .last()
                        .map(|l| ["RN", "RX", "RA", "RT", "RL"].contains(&&l[..2]))
                        .unwrap_or(false)
                    {
                        rec.pre.pop();
                    }
                }
                if format.family() == "uniprobe" {
                    // keep column sums valid after narrowing: they are per position, so they are
                }
            }
            v.push(CorpusFile {
                name: format!("gen-{}-{}", format.as_str(), k),
                format: *format,
                data: m.render(),
            });
        }
    }
    for (format, name, data) in edge_files() {
        v.push(CorpusFile {
            name: format!("edge-{}-{}", format.family(), name),
            format,
            data: data.to_vec(),
        });
    }
    v
}

pub struct Corpus {
    pub files: Vec<CorpusFile>,
    /// cumulative number of enumerated single-fault runs before each file
    pub cum: Vec<u64>,
    pub total: u64,
}

const SCHEDULES: u64 = 3;

fn faults_per_file(n: u64) -> u64 {
    // prefixes (n+1) + substitutions (19 n) + deletions (n) + insertions (19 (n+1)) + hard errors (n+1)
    (n + 1) + 19 * n + n + 19 * (n + 1) + (n + 1)
}

fn corpus(tier: Tier) -> &'static Corpus {
    static QUICK: OnceLock<Corpus> = OnceLock::new();
    static THOROUGH: OnceLock<Corpus> = OnceLock::new();
    let cell = if tier == Tier::Quick { &QUICK } else { &THOROUGH };
    cell.get_or_init(|| {
        let files = build_corpus(tier);
        let mut cum = Vec::with_capacity(files.len());
        let mut total = 0;
        for f in &files {
            cum.push(total);
            total += faults_per_file(f.data.len() as u64) * SCHEDULES;
        }
        Corpus { files, cum, total }
    })
}

pub fn plan(tier: Tier) -> Vec<Phase> {
    let c = corpus(tier);
    let (multi, arbitrary, large) = if tier == Tier::Quick { (150_000, 60_000, 120_000) } else { (3_000_000, 1_000_000, 3_000_000) };
    let runs = if tier == Tier::Quick { 1_200 } else { 20_000 };
    let unicode = if tier == Tier::Quick { 40_000 } else { 800_000 };
    vec![
        Phase { name: "single-faults", count: c.total, exhaustive: true },
        Phase { name: "multi-faults", count: multi, exhaustive: false },
        Phase { name: "arbitrary-bytes", count: arbitrary, exhaustive: false },
        Phase { name: "large-files", count: large, exhaustive: false },
        Phase { name: "long-runs", count: runs, exhaustive: false },
        Phase { name: "unicode-heavy", count: unicode, exhaustive: false },
        Phase { name: "keyword-splices", count: multi * 3, exhaustive: false },
    ]
}

/// Dictionary of the `keyword-splices` phase, per format family: the string literals of the parser sources
/// of the tree under test (so that a keyword a change introduces is in the dictionary of the very run that
/// checks that change) plus keywords of the formats as they occur in the wild. Sorted, hence the same in the
/// parent and in every worker; replay files carry the spliced bytes themselves and do not need it.
pub struct Dict {
    pub tokens: Vec<Vec<u8>>,
    /// The token occurs in no file of the corpus: a keyword the parser knows and the corpus lacks.
    pub novel: Vec<bool>,
    /// 0 = upper-case letters, 1 = other letters, 2 = number-like, 3 = anything else
    pub class: Vec<u8>,
}

fn word_class(w: &[u8]) -> u8 {
    if !w.is_empty() && w.iter().all(|b| b.is_ascii_uppercase()) {
        0
    } else if !w.is_empty() && w.iter().all(|b| b.is_ascii_alphabetic()) {
        1
    } else if !w.is_empty() && w.iter().all(|b| b.is_ascii_digit() || matches!(b, b'.' | b'-' | b'+' | b'e' | b'E')) {
        2
    } else {
        3
    }
}

impl Dict {
    /// Weighted choice: novel tokens count eight times; with `class`, three times in four only tokens of
    /// that class (after trimming separators) are considered, if there are any.
    fn pick(&self, r: &mut Prng, class: Option<u8>) -> Vec<u8> {
        let same: Vec<usize> = match class {
            Some(c) if r.chance(3, 4) => (0..self.tokens.len()).filter(|&i| self.class[i] == c).collect(),
            _ => Vec::new(),
        };
        let pool: Vec<usize> = if same.is_empty() { (0..self.tokens.len()).collect() } else { same };
        let total: u64 = pool.iter().map(|&i| if self.novel[i] { 8 } else { 1 }).sum();
        let mut x = r.below(total.max(1));
        for &i in &pool {
            let w = if self.novel[i] { 8 } else { 1 };
            if x < w {
                return self.tokens[i].clone();
            }
            x -= w;
        }
        self.tokens[pool[0]].clone()
    }
}

fn dictionary(family: &str, tier: Tier) -> &'static Dict {
    static DICT: OnceLock<Vec<(String, Dict)>> = OnceLock::new();
    let all = DICT.get_or_init(|| {
        let wild: &[&str] = &[
            "AC", "ID", "NA", "DE", "DT", "CO", "BF", "BA", "BS", "CC", "RN", "RX", "RA", "RT", "RL", "DR", "OS", "OC", "SF", "ST", "SD", "HP", "HC", "TY", "VV", "XX", "//", "P0", "PO", "PE",
            "PUBMED: ", "MEDLINE; ", "DOI: ", "EMBL; ", "TRANSFAC: ", "TRANSCOMPEL: ", "JASPAR: ", "PRODORIC: ", "created", "updated", "A:", "C:", "G:", "T:", "N:", "X:", "#", ">", "[", "]", "|", "=", "Motif", "letter-probability matrix:",
            "MOTIF", "ALPHABET=", "alength=", "w=", "nsites=", "E=", "URL", "inf", "nan", "NaN", "-inf", "1e400", "-0", "+5", "0x10", "1_000",
        ];
        let mut out = Vec::new();
        for fam in ["jaspar", "jaspar16", "transfac", "uniprobe"] {
            let mut v: Vec<Vec<u8>> = wild.iter().map(|w| w.as_bytes().to_vec()).collect();
            let mut files: Vec<std::path::PathBuf> = Vec::new();
            for dir in [format!("/repo/lightmotif-io/src/{}", fam), "/repo/lightmotif-io/src".to_string()] {
                if let Ok(rd) = std::fs::read_dir(&dir) {
                    for e in rd.flatten() {
                        let p = e.path();
                        if p.extension().map(|x| x == "rs").unwrap_or(false) {
                            files.push(p);
                        }
                    }
                }
            }
            files.sort();
            for f in files {
                if let Ok(src) = std::fs::read(&f) {
                    v.extend(string_literals(&src));
                }
            }
            v.sort();
            v.dedup();
            let files: Vec<&CorpusFile> = corpus(tier).files.iter().filter(|f| f.format.family() == fam).collect();
            let occurs = |t: &[u8]| files.iter().any(|f| f.data.windows(t.len()).any(|w| w == t));
            let novel: Vec<bool> = v.iter().map(|t| !occurs(t)).collect();
            let class: Vec<u8> = v
                .iter()
                .map(|t| {
                    let a = t.iter().position(|b| b.is_ascii_alphanumeric()).unwrap_or(0);
                    let b = t.iter().rposition(|b| b.is_ascii_alphanumeric()).map(|p| p + 1).unwrap_or(t.len());
                    word_class(&t[a..b.max(a)])
                })
                .collect();
            out.push((fam.to_string(), Dict { tokens: v, novel, class }));
        }
        out
    });
    &all.iter().find(|(f, _)| f == family).unwrap_or(&all[0]).1
}

/// String, byte-string and char literals (1..=16 bytes after unescaping the common escapes, no `{`) of a
/// Rust source text. A plain scanner, good enough for harvesting keywords.
fn string_literals(src: &[u8]) -> Vec<Vec<u8>> {
    let mut out = Vec::new();
    let mut i = 0;
    while i < src.len() {
        let q = src[i];
        if q == b'/' && src.get(i + 1) == Some(&b'/') {
            while i < src.len() && src[i] != b'\n' {
                i += 1;
            }
            continue;
        }
        if q == b'"' || q == b'\'' {
            let mut j = i + 1;
            let mut lit = Vec::new();
            let mut closed = false;
            while j < src.len() && lit.len() <= 40 {
                let b = src[j];
                if b == b'\\' && j + 1 < src.len() {
                    lit.push(match src[j + 1] {
                        b'n' => b'\n',
                        b't' => b'\t',
                        b'r' => b'\r',
                        b'0' => 0,
                        other => other,
                    });
                    j += 2;
                    continue;
                }
                if b == q {
                    closed = true;
                    break;
                }
                if b == b'\n' && q == b'\'' {
                    break;
                }
                lit.push(b);
                j += 1;
            }
            if closed && !lit.is_empty() && lit.len() <= 16 && !lit.contains(&b'{') && (q == b'"' || lit.len() <= 4) {
                out.push(lit);
                i = j + 1;
            } else if closed && q == b'"' {
                i = j + 1;
            } else {
                i += 1; // a lifetime tick or an over-long literal: move on
            }
            continue;
        }
        i += 1;
    }
    out
}

/// Maximal runs of "word" bytes (alphanumerics, `_`, `.`, `-`, `+`) in a line: (start, end).
fn words_of(line: &[u8]) -> Vec<(usize, usize)> {
    let is_w = |b: u8| b.is_ascii_alphanumeric() || b == b'_' || b == b'.' || b == b'-' || b == b'+' || b >= 0x80;
    let mut v = Vec::new();
    let mut i = 0;
    while i < line.len() {
        if is_w(line[i]) {
            let s = i;
            while i < line.len() && is_w(line[i]) {
                i += 1;
            }
            v.push((s, i));
        } else {
            i += 1;
        }
    }
    v
}

fn schedule(which: u64, r: &mut Prng, len: usize) -> Transport {
    let mut t = Transport::all_at_once();
    match which {
        0 => {}
        1 => t.chunks = vec![1],
        _ => {
            let n = r.range(1, 6);
            t.chunks = (0..n).map(|_| r.heavy(1, len.max(2) / 2 + 1)).collect();
            if r.chance(1, 2) {
                t.mode = Mode::Wrapped;
                t.cap = r.range(1, len + 2);
            }
            if r.chance(1, 4) {
                t.eintr = vec![(r.below(6), r.range(1, 3) as u32)];
            }
        }
    }
    t
}

pub fn generate(tier: Tier, phase: &str, idx: u64, r: &mut Prng) -> Sc {
    let c = corpus(tier);
    match phase {
        "single-faults" => {
            let fi = match c.cum.binary_search(&idx) {
                Ok(i) => {
                    // several files may be empty-run? (never: every file has >= 41 faults)
                    i
                }
                Err(i) => i - 1,
            };
            let f = &c.files[fi];
            let n = f.data.len() as u64;
            let local = idx - c.cum[fi];
            let sched = local % SCHEDULES;
            let mut k = local / SCHEDULES;
            let mut data = f.data.clone();
            let mut transport = schedule(sched, r, data.len());
            let origin;
            if k < n + 1 {
                transport.truncate = Some(k as usize);
                origin = format!("{}:truncate:{}", f.name, k);
            } else {
                k -= n + 1;
                if k < 19 * n {
                    let off = (k / 19) as usize;
                    let b = SUBST[(k % 19) as usize];
                    data[off] = b;
                    origin = format!("{}:substitute:{}:0x{:02x}", f.name, off, b);
                } else {
                    k -= 19 * n;
                    if k < n {
                        data.remove(k as usize);
                        origin = format!("{}:delete:{}", f.name, k);
                    } else {
                        k -= n;
                        if k < 19 * (n + 1) {
                            let off = (k / 19) as usize;
                            let b = SUBST[(k % 19) as usize];
                            data.insert(off, b);
                            origin = format!("{}:insert:{}:0x{:02x}", f.name, off, b);
                        } else {
                            k -= 19 * (n + 1);
                            let kind = HardKind::ALL[(k % 6) as usize];
                            transport.error_at = Some((k as usize, kind));
                            origin = format!("{}:hard-error:{}:{:?}", f.name, k, kind);
                        }
                    }
                }
            }
            Sc {
                consume: None,
                input: Input::Bytes { format: f.format, data: Blob(data), origin },
                transport,
            }
        }
        "multi-faults" => {
            let f = &c.files[r.usize_below(c.files.len())];
            let mut data = f.data.clone();
            let n_mut = r.range(2, 5);
            let mut kinds = Vec::new();
            for _ in 0..n_mut {
                let len = data.len();
                match r.below(9) {
                    0 if len > 0 => {
                        let o = r.usize_below(len);
                        data[o] = *r.pick(&SUBST);
                        kinds.push("sub");
                    }
                    1 if len > 0 => {
                        let o = r.usize_below(len);
                        data.remove(o);
                        kinds.push("del");
                    }
                    2 => {
                        let o = r.usize_below(len + 1);
                        data.insert(o, *r.pick(&SUBST));
                        kinds.push("ins");
                    }
                    3 if len > 0 => {
                        // duplicate a line
                        let lines: Vec<&[u8]> = data.split_inclusive(|&b| b == b'\n').collect();
                        let i = r.usize_below(lines.len());
                        let mut v = Vec::new();
                        for (j, l) in lines.iter().enumerate() {
                            v.extend_from_slice(l);
                            if j == i {
                                v.extend_from_slice(l);
                            }
                        }
                        data = v;
                        kinds.push("dup-line");
                    }
                    4 if len > 0 => {
                        let lines: Vec<&[u8]> = data.split_inclusive(|&b| b == b'\n').collect();
                        let i = r.usize_below(lines.len());
                        let mut v = Vec::new();
                        for (j, l) in lines.iter().enumerate() {
                            if j != i {
                                v.extend_from_slice(l);
                            }
                        }
                        data = v;
                        kinds.push("del-line");
                    }
                    5 if len > 1 => {
                        let mut lines: Vec<Vec<u8>> = data.split_inclusive(|&b| b == b'\n').map(|l| l.to_vec()).collect();
                        if lines.len() > 1 {
                            let i = r.usize_below(lines.len() - 1);
                            lines.swap(i, i + 1);
                        }
                        data = lines.concat();
                        kinds.push("swap-lines");
                    }
                    6 if len > 0 => {
                        // a number becomes huge
                        if let Some(o) = data.iter().position(|b| b.is_ascii_digit()) {
                            let o = o + r.usize_below((len - o).min(40));
                            if data[o].is_ascii_digit() {
                                for _ in 0..r.range(8, 20) {
                                    data.insert(o, b'9');
                                }
                            }
                        }
                        kinds.push("huge-number");
                    }
                    7 => {
                        // CRLF conversion
                        let mut v = Vec::new();
                        for &b in &data {
                            if b == b'\n' {
                                v.push(b'\r');
                            }
                            v.push(b);
                        }
                        data = v;
                        kinds.push("crlf");
                    }
                    _ => {
                        // invalid UTF-8 burst
                        let o = r.usize_below(len + 1);
                        for b in [0xC3u8, 0x28, 0xF0, 0x9F] {
                            if r.chance(1, 2) {
                                data.insert(o.min(data.len()), b);
                            }
                        }
                        kinds.push("bad-utf8");
                    }
                }
            }
            let len = data.len();
            let class = r.below(96);
            let mut transport = gen::gen_transport(r, &data, class);
            if r.chance(1, 4) {
                transport.truncate = Some(r.usize_below(len + 1));
            }
            if r.chance(1, 5) {
                transport.error_at = Some((r.usize_below(len + 1), *r.pick(&HardKind::ALL)));
            }
            Sc {
                consume: None,
                input: Input::Bytes {
                    format: f.format,
                    data: Blob(data),
                    origin: format!("{}:multi:{}", f.name, kinds.join("+")),
                },
                transport,
            }
        }
        "keyword-splices" => {
            // Structure-level faults a byte-level enumeration does not reach: whole keywords (harvested from
            // the parser sources of the tree under test and from the formats as they occur in the wild)
            // spliced into valid files - a word of a line replaced, a line cloned with one word replaced, a
            // new line made of a keyword followed by the tail of another line or by as many small numbers as
            // a neighbouring row has fields; numbers replaced by boundary labels (0, 1, width, width + 1, -1).
            let f = &c.files[r.usize_below(c.files.len())];
            let dict = dictionary(f.format.family(), tier);
            let mut lines: Vec<Vec<u8>> = f.data.split_inclusive(|&b| b == b'\n').map(|l| l.to_vec()).collect();
            let n_mut = r.range(1, 3);
            let mut kinds = Vec::new();
            for _ in 0..n_mut {
                if lines.is_empty() || dict.tokens.is_empty() {
                    break;
                }
                let li = r.usize_below(lines.len());
                let body_len = |l: &Vec<u8>| l.iter().rposition(|&b| b != b'\n' && b != b'\r').map(|p| p + 1).unwrap_or(0);
                match r.below(6) {
                    0 | 1 => {
                        // replace one word (optionally together with the separator run after it); half of
                        // the time in a clone of the line placed right after it
                        let clone = r.chance(1, 2);
                        let mut line = lines[li].clone();
                        let ws = words_of(&line[..body_len(&line)]);
                        if ws.is_empty() {
                            continue;
                        }
                        // prefer words that are keywords themselves (keyword <-> keyword substitution)
                        let kw: Vec<(usize, usize)> = ws.iter().copied().filter(|&(a, b)| dict.tokens.iter().any(|t| t.as_slice() == &line[a..b])).collect();
                        let (a, mut b) = if !kw.is_empty() && r.chance(2, 3) { kw[r.usize_below(kw.len())] } else { ws[r.usize_below(ws.len())] };
                        let class = word_class(&line[a..b]);
                        if r.chance(1, 3) {
                            let end = body_len(&line);
                            while b < end && !(line[b].is_ascii_alphanumeric()) {
                                b += 1;
                            }
                        }
                        let tok = dict.pick(r, Some(class));
                        line.splice(a..b, tok);
                        if clone {
                            lines.insert(li + 1, line);
                            kinds.push("clone+word");
                        } else {
                            lines[li] = line;
                            kinds.push("word");
                        }
                    }
                    2 => {
                        // a new line: keyword + the tail of another line
                        let src = lines[r.usize_below(lines.len())].clone();
                        let ws = words_of(&src[..body_len(&src)]);
                        let from = ws.first().map(|w| w.1).unwrap_or(0);
                        let mut line = dict.pick(r, None);
                        line.extend_from_slice(&src[from..]);
                        if !line.ends_with(b"\n") {
                            line.push(b'\n');
                        }
                        lines.insert(li + r.usize_below(2), line);
                        kinds.push("keyword+tail");
                    }
                    3 | 4 => {
                        // a new line: keyword + as many small numbers as a nearby row has fields (+-1), with
                        // that row's separator
                        let near = (li..lines.len().min(li + 4)).map(|i| &lines[i]).find(|l| words_of(&l[..body_len(l)]).len() >= 3);
                        let (fields, sep) = match near {
                            Some(l) => {
                                let ws = words_of(&l[..body_len(l)]);
                                let sep = l[ws[ws.len() - 2].1..ws[ws.len() - 1].0].to_vec();
                                (ws.len() - 1, sep)
                            }
                            None => (r.range(1, 6), b"\t".to_vec()),
                        };
                        let k = match r.below(4) {
                            0 => fields + 1,
                            1 => fields.saturating_sub(1),
                            _ => fields,
                        };
                        let base: i64 = *r.pick(&[0i64, 0, 1, 1, 2, fields as i64, -1]);
                        let mut line = dict.pick(r, None);
                        for j in 0..k {
                            line.extend_from_slice(&sep);
                            let v = if r.chance(1, 6) { *r.pick(&[0i64, -1, fields as i64 + 1, 255, 256, 65_536, i64::MAX]) } else { base + j as i64 };
                            line.extend_from_slice(v.to_string().as_bytes());
                        }
                        line.push(b'\n');
                        lines.insert(li + r.usize_below(2), line);
                        kinds.push("keyword+numbers");
                    }
                    _ => {
                        // a number becomes a boundary label
                        let mut line = lines[li].clone();
                        let ws: Vec<(usize, usize)> = words_of(&line[..body_len(&line)]).into_iter().filter(|&(a, b)| line[a..b].iter().all(|c| c.is_ascii_digit() || *c == b'.')).collect();
                        if ws.is_empty() {
                            continue;
                        }
                        let (a, b) = ws[r.usize_below(ws.len())];
                        let width = ws.len() as i64;
                        let v = *r.pick(&[0i64, 1, -1, width, width + 1, 255, 256, 4_294_967_295, 4_294_967_296]);
                        line.splice(a..b, v.to_string().into_bytes());
                        lines[li] = line;
                        kinds.push("label");
                    }
                }
            }
            let data = lines.concat();
            let len = data.len();
            let class = r.below(96);
            let mut transport = gen::gen_transport(r, &data, class);
            if r.chance(1, 8) {
                transport.truncate = Some(r.usize_below(len + 1));
            }
            Sc {
                consume: None,
                input: Input::Bytes {
                    format: f.format,
                    data: Blob(data),
                    origin: format!("{}:splice:{}", f.name, kinds.join("+")),
                },
                transport,
            }
        }
        "unicode-heavy" => {
            // valid files whose free-text fields are kilobytes of multi-byte characters (2-, 3- and 4-byte,
            // so that any byte offset is likely to fall inside a character), with one early fault in a record:
            // whatever slices or measures the remaining text by bytes meets a character boundary problem
            let format = Format::ALL[(idx % 7) as usize];
            let mut model = gen::gen_file(r, format, 4);
            let glyphs = ["\u{e9}", "\u{3b2}", "\u{4e2d}", "\u{1F9EC}", "\u{fc}", "\u{20ac}", "x"];
            let which = r.usize_below(model.records.len());
            let n = r.range(600, 1800);
            let mut text = String::new();
            for _ in 0..r.range(0, 3) {
                text.push('a'); // shift the phase of the run
            }
            for _ in 0..n {
                text.push_str(*r.pick(&glyphs));
            }
            match format.family() {
                "transfac" => {
                    let rec = &mut model.records[which];
                    let line = format!("{}  {}", *r.pick(&["CC", "DE", "BF", "NA"]), text);
                    if r.chance(1, 2) {
                        rec.pre.push(line);
                    } else {
                        rec.post.push(line);
                    }
                }
                "uniprobe" => model.records[which].id = format!("{} {}", model.records[which].id, text),
                _ => model.records[which].desc = Some(text),
            }
            let mut data = model.render();
            // one fault near the start of the chosen record (or of the file)
            let starts: Vec<usize> = {
                let mut v = vec![0usize];
                let mut acc = 0usize;
                for rec in &model.records {
                    acc += super::model::FileModel { format, version: None, records: vec![rec.clone()] }.render().len();
                    v.push(acc.min(data.len()));
                }
                v
            };
            let base = starts[which.min(starts.len() - 1)].min(data.len());
            let kind = match r.below(5) {
                0 => {
                    // an unsupported / malformed line right at the start of the record
                    let junk: &[u8] = *r.pick(&[&b"ZZ  x\n"[..], b"??\n", b"1 2 x\n", b"Q:\t1\n", b"[\n"]);
                    let at = base.min(data.len());
                    for (k, b) in junk.iter().enumerate() {
                        data.insert(at + k, *b);
                    }
                    "junk-line"
                }
                1 if !data.is_empty() => {
                    let o = (base + r.usize_below(60)).min(data.len() - 1);
                    data[o] = *r.pick(&SUBST);
                    "early-substitution"
                }
                2 if !data.is_empty() => {
                    let o = (base + r.usize_below(60)).min(data.len() - 1);
                    data.remove(o);
                    "early-deletion"
                }
                3 => "intact",
                _ => {
                    let o = (base + r.usize_below(60)).min(data.len());
                    data.insert(o, *r.pick(&SUBST));
                    "early-insertion"
                }
            };
            let class = r.below(96);
            let transport = gen::gen_transport(r, &data, class);
            Sc {
                consume: None,
                input: Input::Bytes { format, data: Blob(data), origin: format!("unicode:{}", kind) },
                transport,
            }
        }
        "long-runs" => {
            // pathological repetition: tens of thousands of copies of one short token (blank lines, spaces,
            // delimiters, digits) before, between or after the records of a valid file
            let f = &c.files[r.usize_below(c.files.len())];
            let token: &[u8] = *r.pick(&[&b"\n"[..], b" \n", b"\t\n", b" ", b">", b">\n", b"//\n", b"XX\n", b"A", b"1 ", b"9", b"\r\n", b"A:\t0\n", b"[", b"CC  x\n"]);
            let reps = *r.pick(&[30_000usize, 50_000, 100_000, 200_000]);
            let mut run = Vec::with_capacity(token.len() * reps);
            for _ in 0..reps {
                run.extend_from_slice(token);
            }
            let lines: Vec<&[u8]> = f.data.split_inclusive(|&b| b == b'\n').collect();
            let at = r.usize_below(lines.len() + 1);
            let mut data = Vec::with_capacity(f.data.len() + run.len());
            for (i, l) in lines.iter().enumerate() {
                if i == at {
                    data.extend_from_slice(&run);
                }
                data.extend_from_slice(l);
            }
            if at == lines.len() {
                data.extend_from_slice(&run);
            }
            let mut transport = Transport::all_at_once();
            if r.chance(1, 2) {
                transport.mode = Mode::Wrapped;
                transport.cap = *r.pick(&[64usize, 4096, 8192, 65536]);
                transport.chunks = vec![r.range(1000, 70_000)];
            }
            Sc {
                consume: None,
                input: Input::Bytes { format: f.format, data: Blob(data), origin: format!("{}:long-run", f.name) },
                transport,
            }
        }
        "large-files" => {
            // valid files of many records (the readers' buffers are compacted many times), whole or cut at a
            // random byte / at a line boundary / with one late mutation, under a random transport
            let format = Format::ALL[(idx % 7) as usize];
            let max_records = if idx % 11 == 0 { 400 } else { 60 };
            let model = gen::gen_file(r, format, max_records);
            let mut data = model.render();
            let len = data.len();
            let class = r.below(96);
            let mut transport = gen::gen_transport(r, &data, class);
            let kind = match r.below(4) {
                0 => "whole",
                1 => {
                    transport.truncate = Some(r.usize_below(len + 1));
                    "cut-anywhere"
                }
                2 => {
                    // cut right after a newline in the last tenth of the file
                    let from = len - len / 10;
                    let nl: Vec<usize> = (from..len).filter(|&i| data[i] == b'\n').collect();
                    if !nl.is_empty() {
                        transport.truncate = Some(*r.pick(&nl) + 1);
                    }
                    "cut-at-line"
                }
                _ => {
                    if len > 0 {
                        let o = len - 1 - r.usize_below((len / 8).max(1).min(len));
                        data[o] = *r.pick(&SUBST);
                    }
                    "late-mutation"
                }
            };
            Sc {
                consume: None,
                input: Input::Bytes { format, data: Blob(data), origin: format!("large:{}", kind) },
                transport,
            }
        }
        _ => {
            let format = Format::ALL[(idx % 7) as usize];
            let alphabet: &[u8] = match format.family() {
                "jaspar" => b">ID x\n\n0123456789 \t",
                "jaspar16" => b">ID x\n\nACGTNWXY[]0123456789 \t",
                "transfac" => b"ACIDNAEDTPO0XX//VVRNRXBFCC\n\n\n[];.() 0123456789 \t",
                _ => b"ID x\n\nACGTNWX::\t\t0.123456789e-+",
            };
            let n = r.heavy(0, 200);
            let mut data = Vec::with_capacity(n);
            for _ in 0..n {
                if r.chance(1, 40) {
                    data.push(r.below(256) as u8);
                } else {
                    data.push(*r.pick(alphabet));
                }
            }
            let class = r.below(96);
            let transport = gen::gen_transport(r, &data, class);
            Sc {
                consume: None,
                input: Input::Bytes { format, data: Blob(data), origin: "arbitrary:arbitrary".to_string() },
                transport,
            }
        }
    }
}
