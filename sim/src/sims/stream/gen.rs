//! Grammar-driven generator of well-formed motif files (with their reference model) and of
//! transport plans (chunk schedules, structure-aimed cuts, EINTR plans).

use super::model::{FileModel, Format, Rec};
use crate::kit::Prng;
use crate::seam::stream::{Mode, Transport};

const ID_CHARS: &[u8] = b"ABCDEFGHIJKLMNOPQRSTUVWXYZabcdefghijklmnopqrstuvwxyz0123456789._-:|()+$";
const TEXT_CHARS: &[u8] =
    b"ABCDEFGHIJKLMNOPQRSTUVWXYZabcdefghijklmnopqrstuvwxyz0123456789._-:|()+$,;/[]{}=*&%#@!?'\"";
const NON_ASCII: &[&str] = &["\u{e9}", "\u{3b2}", "\u{394}", "\u{fc}", "\u{4e2d}"];

fn gen_id(r: &mut Prng, max: usize) -> String {
    let n = r.heavy(1, max);
    let mut s = String::new();
    for _ in 0..n {
        if r.chance(1, 60) {
            s.push_str(*r.pick(NON_ASCII));
        } else {
            s.push(*r.pick(ID_CHARS) as char);
        }
    }
    s
}

/// Free text without newline, '>' or leading/trailing whitespace (single spaces or tabs inside).
fn gen_text(r: &mut Prng, max_words: usize) -> String {
    let words = r.range(1, max_words);
    let mut s = String::new();
    for w in 0..words {
        if w > 0 {
            s.push(if r.chance(1, 8) { '\t' } else { ' ' });
        }
        let n = r.heavy(1, 12);
        for _ in 0..n {
            if r.chance(1, 80) {
                s.push_str(*r.pick(NON_ASCII));
            } else {
                s.push(*r.pick(TEXT_CHARS) as char);
            }
        }
    }
    s
}

fn gen_count(r: &mut Prng, max: u32) -> String {
    let v: u64 = match r.below(10) {
        0 => 0,
        1 => max as u64,
        2 => (max as u64).saturating_sub(1),
        3..=6 => r.below(100),
        7 | 8 => r.below(100_000),
        _ => r.below(max as u64 + 1),
    };
    v.min(max as u64).to_string()
}

fn gen_width(r: &mut Prng) -> usize {
    match r.below(8) {
        0 => 1,
        1 => r.range(30, 60),
        _ => r.range(2, 20),
    }
}

fn subset_syms(r: &mut Prng, alphabet: &str, all: bool) -> String {
    // any order, any subset >= 1 (or exactly the non-wildcard symbols when `all`)
    let letters: Vec<char> = alphabet.chars().collect();
    let k = letters.len();
    let mut idx: Vec<usize> = if all { (0..k - 1).collect() } else { (0..k).collect() };
    r.shuffle(&mut idx);
    if !all {
        let n = if r.chance(2, 3) { (k - 1).min(idx.len()) } else { r.range(1, idx.len()) };
        idx.truncate(n);
    }
    idx.into_iter().map(|i| letters[i]).collect()
}

fn transfac_meta_line(r: &mut Prng, which: u64) -> Vec<String> {
    match which {
        0 => vec![format!("AC  {}", gen_id(r, 10))],
        1 => vec![format!("ID  {}", gen_id(r, 14))],
        2 => vec![format!("NA  {}", gen_text(r, 2))],
        3 => vec![format!("DE  {}", gen_text(r, 6))],
        4 => vec![format!(
            "DT  {:02}.{:02}.{} ({}); {}.",
            r.range(1, 28),
            r.range(1, 12),
            r.range(1980, 2024),
            if r.chance(1, 2) { "created" } else { "updated" },
            gen_id(r, 4).replace('.', "x")
        )],
        5 => vec![format!("CO  Copyright (C), {}", gen_text(r, 3))],
        6 => vec![format!("BF  {}", gen_text(r, 5))],
        7 => vec![format!("BA  {}", gen_text(r, 5))],
        8 => (0..r.range(1, 3)).map(|_| format!("BS  {}", gen_text(r, 4))).collect(),
        9 => (0..r.range(1, 3)).map(|_| format!("CC  {}", gen_text(r, 6))).collect(),
        10 => {
            let mut v = Vec::new();
            if r.chance(1, 2) {
                v.push(format!("RN  [{}]; RE{:07}.", r.range(1, 9), r.below(9_999_999)));
            } else {
                v.push(format!("RN  [{}]", r.range(1, 9)));
            }
            if r.chance(1, 2) {
                v.push(format!("RX  PUBMED: {}.", r.below(99_999_999)));
            }
            if r.chance(2, 3) {
                v.push(format!("RA  {}", gen_text(r, 4)));
            }
            if r.chance(2, 3) {
                v.push(format!("RT  {}", gen_text(r, 6)));
            }
            if r.chance(2, 3) {
                v.push(format!("RL  {}", gen_text(r, 4)));
            }
            v
        }
        _ => vec!["XX".to_string()],
    }
}

pub fn gen_record(r: &mut Prng, format: Format, uniq: usize) -> Rec {
    let width = gen_width(r);
    let style = r.next_u64();
    let mut rec = Rec {
        id: String::new(),
        desc: None,
        syms: String::new(),
        width,
        cells: Vec::new(),
        style,
        pre: Vec::new(),
        post: Vec::new(),
        blank_after: 0,
    };
    match format.family() {
        "jaspar" => {
            rec.id = format!("{}{}", gen_id(r, 10), uniq);
            if r.chance(3, 4) {
                rec.desc = Some(gen_text(r, 3));
            }
            rec.syms = "ACGT".to_string();
            for _ in 0..4 * width {
                rec.cells.push(gen_count(r, u32::MAX));
            }
        }
        "jaspar16" => {
            rec.id = format!("{}{}", gen_id(r, 10), uniq);
            if r.chance(3, 4) {
                rec.desc = Some(gen_text(r, 3));
            }
            rec.syms = subset_syms(r, format.alphabet(), false);
            for _ in 0..rec.syms.len() * width {
                rec.cells.push(gen_count(r, u32::MAX));
            }
        }
        "transfac" => {
            // metadata before the matrix: AC / ID / NA / DE at most once each, others freely
            let mut once = [false; 4];
            let n_pre = r.range(0, 7);
            for _ in 0..n_pre {
                let which = r.below(12);
                if which < 4 {
                    if once[which as usize] {
                        continue;
                    }
                    once[which as usize] = true;
                }
                rec.pre.extend(transfac_meta_line(r, which));
            }
            if r.chance(1, 2) {
                rec.pre.push("XX".to_string());
            }
            let n_post = r.range(0, 4);
            if n_post > 0 || r.chance(1, 2) {
                rec.post.push("XX".to_string());
            }
            for _ in 0..n_post {
                let which = r.below(12);
                if which < 4 {
                    if once[which as usize] {
                        continue;
                    }
                    once[which as usize] = true;
                }
                rec.post.extend(transfac_meta_line(r, which));
            }
            // make the first record field unique so that record order is observable
            rec.pre.insert(0, format!("AC  M{:05}u{}", r.below(99_999), uniq));
            if once[0] {
                // an AC line already exists further down; keep only the first one we inserted
                let mut seen = false;
                rec.pre.retain(|l| {
                    if l.starts_with("AC") {
                        if seen {
                            return false;
                        }
                        seen = true;
                    }
                    true
                });
                rec.post.retain(|l| !l.starts_with("AC"));
            }
            rec.syms = if r.chance(3, 4) {
                subset_syms(r, format.alphabet(), true)
            } else {
                subset_syms(r, format.alphabet(), false)
            };
            let decimal = r.chance(1, 4);
            for _ in 0..rec.syms.len() * width {
                if decimal {
                    let whole = r.below(50);
                    let frac = *r.pick(&["0", "25", "5", "75", "125", "1", "333"]);
                    rec.cells.push(format!("{}.{}", whole, frac));
                } else {
                    rec.cells.push(gen_count(r, 1 << 24));
                }
            }
        }
        _ => {
            rec.id = format!("{}{}", gen_text(r, 3).replace(':', "_").replace('\t', " "), uniq);
            // all non-wildcard symbols, any order; each position sums to exactly 1.000
            let dna = !format.is_protein();
            rec.syms = if dna || r.chance(1, 2) {
                subset_syms(r, format.alphabet(), true)
            } else {
                subset_syms(r, format.alphabet(), false)
            };
            let k = rec.syms.len();
            rec.cells = vec![String::new(); k * width];
            for p in 0..width {
                // split 1000 thousandths over k symbols
                let mut cuts: Vec<u64> = (0..k - 1).map(|_| r.below(1001)).collect();
                cuts.sort_unstable();
                let mut prev = 0;
                for s in 0..k {
                    let next = if s + 1 < k { cuts[s] } else { 1000 };
                    let v = next - prev;
                    prev = next;
                    rec.cells[s * width + p] = if v == 1000 {
                        if r.chance(1, 2) { "1.000".to_string() } else { "1".to_string() }
                    } else {
                        format!("0.{:03}", v)
                    };
                }
            }
            rec.blank_after = match r.below(4) {
                0 => 0,
                1 | 2 => 1,
                _ => r.range(2, 3) as u8,
            };
        }
    }
    rec
}

pub fn gen_file(r: &mut Prng, format: Format, max_records: usize) -> FileModel {
    let n = match r.below(10) {
        0 => 1,
        1 => 2,
        2 => r.heavy(3, max_records),
        _ => r.range(2, 8.min(max_records).max(2)),
    };
    let mut records = Vec::with_capacity(n);
    for i in 0..n {
        records.push(gen_record(r, format, i));
    }
    let version = if format.family() == "transfac" && r.chance(1, 2) {
        Some(format!("{} {}", gen_text(r, 4), r.below(100)))
    } else {
        None
    };
    FileModel {
        format,
        version,
        records,
    }
}

// --- transports --------------------------------------------------------------------------------

/// Offsets just before / inside / after each delimiter of the text (structure-aimed cuts).
pub fn delimiter_offsets(text: &[u8]) -> Vec<usize> {
    let mut v = Vec::new();
    let n = text.len();
    for i in 0..n {
        match text[i] {
            b'>' => {
                v.push(i);
                v.push(i + 1);
            }
            b'/' if i + 1 < n && text[i + 1] == b'/' => {
                v.push(i);
                v.push(i + 1);
                v.push(i + 2);
                v.push(i + 3);
            }
            b'\n' => {
                v.push(i);
                v.push(i + 1);
            }
            b'V' if i + 1 < n && text[i + 1] == b'V' && (i == 0 || text[i - 1] == b'\n') => {
                v.push(i + 1);
                v.push(i + 2);
            }
            _ => {}
        }
    }
    v.retain(|&o| o > 0 && o < n);
    v.sort_unstable();
    v.dedup();
    v
}

pub fn gen_transport(r: &mut Prng, text: &[u8], class: u64) -> Transport {
    let len = text.len().max(1);
    let mut t = Transport::all_at_once();
    // transport mode and capacity
    if class % 2 == 1 {
        t.mode = Mode::Wrapped;
        t.cap = match r.below(10) {
            0 => 1,
            1 => 2,
            2 => *r.pick(&[3usize, 7, 8, 16, 64]),
            3 => len.saturating_sub(1).max(1),
            4 => len,
            5 => len + 1,
            6 => 4096,
            7 => 8192,
            _ => r.range(1, len + 1),
        };
    }
    // chunk schedule
    match (class / 2) % 6 {
        0 => {}
        1 => t.chunks = vec![1],
        2 => t.chunks = vec![r.range(2, 64)],
        3 => {
            let n = r.range(1, 16);
            let m = (len / 4).max(1);
            t.chunks = (0..n).map(|_| r.heavy(1, m)).collect();
        }
        4 => t.chunks = vec![1, 2, 4, 8, 16, 32, 64, 128, 256],
        _ => {
            let n = r.range(2, 8);
            t.chunks = (0..n).map(|_| r.range(1, 7)).collect();
        }
    }
    // structure-aimed cuts
    if (class / 12) % 2 == 1 || r.chance(1, 3) {
        let offs = delimiter_offsets(text);
        if !offs.is_empty() {
            let n = r.range(1, 6);
            for _ in 0..n {
                t.cuts.push(*r.pick(&offs));
            }
            t.cuts.sort_unstable();
            t.cuts.dedup();
        }
    }
    // EINTR plan
    match (class / 24) % 4 {
        0 => {}
        1 => t.eintr = vec![(r.below(8), 1)],
        2 => {
            let n = r.range(1, 5);
            let mut at = 0;
            for _ in 0..n {
                at += r.below(6);
                t.eintr.push((at, r.range(1, 5) as u32));
                at += 1;
            }
        }
        _ => t.eintr = (0..64).map(|i| (i, 1)).collect(),
    }
    t
}
