//! Grammar-driven generator of well-formed motif files (with their reference model) and of
//! transport plans (chunk schedules, structure-aimed cuts, EINTR plans).

use super::model::{FileModel, Format, Rec};
use crate::kit::Prng;
use crate::seam::stream::{Mode, Transport};

const ID_CHARS: &[u8] = b"ABCDEFGHIJKLMNOPQRSTUVWXYZabcdefghijklmnopqrstuvwxyz0123456789._-:|()+$";
const TEXT_CHARS: &[u8] =
    b"ABCDEFGHIJKLMNOPQRSTUVWXYZabcdefghijklmnopqrstuvwxyz0123456789._-:|()+$,;/[]{}=*&%#@!?'\"";
const NON_ASCII: &[&str] = &["\u{e9}", "\u{3b2}", "\u{394}", "\u{fc}", "\u{4e2d}"];

fn gen_id(r: &mut Prng, max: usize) -> String {
    let n = r.heavy(1, max);
    let mut s = String::new();
    for _ in 0..n {
        if r.chance(1, 60) {
            s.push_str(*r.pick(NON_ASCII));
        } else {
            s.push(*r.pick(ID_CHARS) as char);
        }
    }
    s
}

/// Free text without newline, '>' or leading/trailing whitespace (single spaces or tabs inside).
fn gen_text(r: &mut Prng, max_words: usize) -> String {
    let words = r.range(1, max_words);
    let mut s = String::new();
    for w in 0..words {
        if w > 0 {
            s.push(if r.chance(1, 8) { '\t' } else { ' ' });
        }
        let n = r.heavy(1, 12);
        for _ in 0..n {
            if r.chance(1, 80) {
                s.push_str(*r.pick(NON_ASCII));
            } else {
                s.push(*r.pick(TEXT_CHARS) as char);
            }
        }
    }
    s
}

fn gen_count(r: &mut Prng, max: u32) -> String {
    let v: u64 = match r.below(11) {
        0 => 0,
        1 => max as u64,
        2 => (max as u64).saturating_sub(1),
        10 => *r.pick(&[255u64, 256, 65_535, 65_536, 16_777_215, 16_777_216, 2_147_483_647, 2_147_483_648, 4_294_967_295]),
        3..=6 => r.below(100),
        7 | 8 => r.below(100_000),
        _ => r.below(max as u64 + 1),
    };
    v.min(max as u64).to_string()
}

/// Decimal literal within a hair of the midpoint between two adjacent f32 values (17+ significant digits):
/// the classic double-rounding test vector. `lo..hi` bounds the magnitude.
pub fn midpoint_literal(r: &mut Prng, lo: f32, hi: f32) -> String {
    let x = lo + (hi - lo) * (r.unit_f64() as f32);
    let bits = x.to_bits();
    let next = f32::from_bits(bits + 1);
    // the midpoint of two adjacent f32 values is exactly representable as an f64
    let mid = (x as f64 + next as f64) / 2.0;
    let exact = format!("{:.60}", mid); // Rust prints the exact decimal expansion of the f64
    let trimmed = exact.trim_end_matches('0').to_string();
    if r.chance(1, 2) {
        // a hair above the midpoint: must round up to `next`
        format!("{}0000000001", trimmed)
    } else {
        // a hair below: lower the last non-zero digit by one and append 9s
        let mut b = trimmed.into_bytes();
        if let Some(last) = b.last_mut() {
            if *last > b'0' && *last <= b'9' {
                *last -= 1;
            }
        }
        let mut t = String::from_utf8(b).unwrap();
        t.push_str("9999999999");
        t
    }
}

fn gen_width(r: &mut Prng) -> usize {
    match r.below(8) {
        0 => 1,
        1 => r.range(30, 60),
        _ => r.range(2, 20),
    }
}

fn subset_syms(r: &mut Prng, alphabet: &str, all: bool) -> String {
    // any order, any subset >= 1 (or exactly the non-wildcard symbols when `all`)
    let letters: Vec<char> = alphabet.chars().collect();
    let k = letters.len();
    let mut idx: Vec<usize> = if all { (0..k - 1).collect() } else { (0..k).collect() };
    r.shuffle(&mut idx);
    if !all {
        let n = if r.chance(2, 3) { (k - 1).min(idx.len()) } else { r.range(1, idx.len()) };
        idx.truncate(n);
    }
    idx.into_iter().map(|i| letters[i]).collect()
}

fn transfac_meta_line(r: &mut Prng, which: u64) -> Vec<String> {
    match which {
        0 => vec![format!("AC  {}", gen_id(r, 10))],
        1 => vec![format!("ID  {}", gen_id(r, 14))],
        2 => vec![format!("NA  {}", gen_text(r, 2))],
        3 => vec![format!("DE  {}", gen_text(r, 6))],
        4 => vec![format!(
            "DT  {:02}.{:02}.{} ({}); {}.",
            r.range(1, 28),
            r.range(1, 12),
            r.range(1980, 2024),
            if r.chance(1, 2) { "created" } else { "updated" },
            gen_id(r, 4).replace('.', "x")
        )],
        5 => vec![format!("CO  Copyright (C), {}", gen_text(r, 3))],
        6 => vec![format!("BF  {}", gen_text(r, 5))],
        7 => vec![format!("BA  {}", gen_text(r, 5))],
        8 => (0..r.range(1, 3)).map(|_| format!("BS  {}", gen_text(r, 4))).collect(),
        9 => (0..r.range(1, 3)).map(|_| format!("CC  {}", gen_text(r, 6))).collect(),
        10 => {
            let mut v = Vec::new();
            if r.chance(1, 2) {
                v.push(format!("RN  [{}]; RE{:07}.", r.range(1, 9), r.below(9_999_999)));
            } else {
                v.push(format!("RN  [{}]", r.range(1, 9)));
            }
            if r.chance(1, 2) {
                v.push(format!("RX  PUBMED: {}.", r.below(99_999_999)));
            }
            if r.chance(2, 3) {
                v.push(format!("RA  {}", gen_text(r, 4)));
            }
            if r.chance(2, 3) {
                v.push(format!("RT  {}", gen_text(r, 6)));
            }
            if r.chance(2, 3) {
                v.push(format!("RL  {}", gen_text(r, 4)));
            }
            v
        }
        _ => vec!["XX".to_string()],
    }
}

pub fn gen_record(r: &mut Prng, format: Format, uniq: usize) -> Rec {
    let width = gen_width(r);
    let style = r.next_u64();
    let mut rec = Rec {
        id: String::new(),
        desc: None,
        syms: String::new(),
        width,
        cells: Vec::new(),
        style,
        pre: Vec::new(),
        post: Vec::new(),
        blank_after: 0,
    };
    match format.family() {
        "jaspar" => {
            rec.id = format!("{}{}", gen_id(r, 10), uniq);
            if r.chance(3, 4) {
                rec.desc = Some(gen_text(r, 3));
            }
            rec.syms = "ACGT".to_string();
            for _ in 0..4 * width {
                rec.cells.push(gen_count(r, u32::MAX));
            }
        }
        "jaspar16" => {
            rec.id = format!("{}{}", gen_id(r, 10), uniq);
            if r.chance(3, 4) {
                rec.desc = Some(gen_text(r, 3));
            }
            rec.syms = subset_syms(r, format.alphabet(), false);
            for _ in 0..rec.syms.len() * width {
                rec.cells.push(gen_count(r, u32::MAX));
            }
        }
        "transfac" => {
            // metadata before the matrix: AC / ID / NA / DE at most once each, others freely
            let mut once = [false; 4];
            let n_pre = r.range(0, 7);
            for _ in 0..n_pre {
                let which = r.below(12);
                if which < 4 {
                    if once[which as usize] {
                        continue;
                    }
                    once[which as usize] = true;
                }
                rec.pre.extend(transfac_meta_line(r, which));
            }
            if r.chance(1, 2) {
                rec.pre.push("XX".to_string());
            }
            let n_post = r.range(0, 4);
            if n_post > 0 || r.chance(1, 2) {
                rec.post.push("XX".to_string());
            }
            for _ in 0..n_post {
                let which = r.below(12);
                if which < 4 {
                    if once[which as usize] {
                        continue;
                    }
                    once[which as usize] = true;
                }
                rec.post.extend(transfac_meta_line(r, which));
            }
            // make the first record field unique so that record order is observable
            rec.pre.insert(0, format!("AC  M{:05}u{}", r.below(99_999), uniq));
            if once[0] {
                // an AC line already exists further down; keep only the first one we inserted
                let mut seen = false;
                rec.pre.retain(|l| {
                    if l.starts_with("AC") {
                        if seen {
                            return false;
                        }
                        seen = true;
                    }
                    true
                });
                rec.post.retain(|l| !l.starts_with("AC"));
            }
            rec.syms = if r.chance(3, 4) {
                subset_syms(r, format.alphabet(), true)
            } else {
                subset_syms(r, format.alphabet(), false)
            };
            let decimal = r.chance(1, 4);
            let midpoints = decimal && r.chance(1, 3);
            let spellings = decimal && !midpoints && r.chance(1, 3);
            // plain integer counts of 8-10 digits that no f32 holds exactly: the reader must still give the
            // correctly rounded value of the written text (round 7, seed C14-g21)
            let big_ints = !decimal && r.chance(1, 4);
            for _ in 0..rec.syms.len() * width {
                if midpoints && r.chance(1, 3) {
                    let (lo, hi) = *r.pick(&[(0.0f32, 1.0f32), (1.0, 50.0), (16_777_000.0, 16_778_000.0), (0.5, 0.5001)]);
                    rec.cells.push(midpoint_literal(r, lo, hi));
                } else if spellings && r.chance(1, 2) {
                    // other spellings of a number that the readers' float syntax covers
                    let v = r.below(5000) as f64 / 8.0;
                    rec.cells.push(match r.below(6) {
                        0 => format!("{:e}", v),
                        1 => format!("{:E}", v),
                        2 => format!("{:.3e}", v),
                        3 => format!("{:.2E}", v),
                        4 => format!("{}.", v.trunc()),
                        _ => format!("{:.1}", v),
                    });
                } else if decimal {
                    let whole = r.below(50);
                    let frac = *r.pick(&["0", "25", "5", "75", "125", "1", "333"]);
                    rec.cells.push(format!("{}.{}", whole, frac));
                } else if big_ints && r.chance(1, 2) {
                    let v = (1u64 << 24) + r.below((1u64 << 31) - (1u64 << 24));
                    rec.cells.push(v.to_string());
                } else {
                    rec.cells.push(gen_count(r, 1 << 24));
                }
            }
        }
        _ => {
            rec.id = format!("{}{}", gen_text(r, 3).replace(':', "_").replace('\t', " "), uniq);
            // all non-wildcard symbols, any order; each position sums to exactly 1.000
            let dna = !format.is_protein();
            rec.syms = if dna || r.chance(1, 2) {
                subset_syms(r, format.alphabet(), true)
            } else {
                subset_syms(r, format.alphabet(), false)
            };
            let k = rec.syms.len();
            rec.cells = vec![String::new(); k * width];
            for p in 0..width {
                // split 1000 thousandths over k symbols
                let mut cuts: Vec<u64> = (0..k - 1).map(|_| r.below(1001)).collect();
                cuts.sort_unstable();
                let mut prev = 0;
                for s in 0..k {
                    let next = if s + 1 < k { cuts[s] } else { 1000 };
                    let v = next - prev;
                    prev = next;
                    rec.cells[s * width + p] = if v == 1000 {
                        if r.chance(1, 2) { "1.000".to_string() } else { "1".to_string() }
                    } else {
                        format!("0.{:03}", v)
                    };
                }
            }
            // adversarial literals: one cell just off an f32 midpoint, its neighbour chosen so that the
            // column still sums to 1 within the reader's 0.01 tolerance
            if k >= 2 && r.chance(1, 6) {
                let p = r.usize_below(width);
                let lit = midpoint_literal(r, 0.05, 0.9);
                let v: f64 = lit.parse().unwrap();
                rec.cells[p] = lit;
                rec.cells[width + p] = format!("{:.4}", (1.0 - v).max(0.0));
                for s in 2..k {
                    rec.cells[s * width + p] = "0.000".to_string();
                }
            }
            // scientific notation, as written by many tools for small frequencies (both exponent cases)
            if k >= 2 && r.chance(1, 6) {
                let p = r.usize_below(width);
                let tiny = *r.pick(&["1.0E-5", "1e-05", "6.05e-05", "2.5E-4", "1.5e-3", "9E-6"]);
                let v: f64 = tiny.parse().unwrap();
                rec.cells[p] = tiny.to_string();
                rec.cells[width + p] = format!("{:.6}", 1.0 - v);
                for s in 2..k {
                    rec.cells[s * width + p] = "0".to_string();
                }
            }
            rec.blank_after = match r.below(4) {
                0 => 0,
                1 | 2 => 1,
                _ => r.range(2, 3) as u8,
            };
        }
    }
    rec
}

/// A record tens of thousands of positions wide (its text exceeds 1 MiB), placed last or in the middle.
pub fn gen_huge_file(r: &mut Prng, format: Format) -> FileModel {
    let mut m = gen_file(r, format, 4);
    let at = if r.chance(2, 3) { m.records.len() - 1 } else { r.usize_below(m.records.len()) };
    let k = m.records[at].syms.len();
    let width = match format.family() {
        "transfac" => r.range(15_000, 25_000),
        _ => r.range(40_000, 80_000),
    };
    let old_w = m.records[at].width;
    let mut cells = Vec::with_capacity(k * width);
    for s in 0..k {
        for p in 0..width {
            cells.push(m.records[at].cells[s * old_w + p % old_w].clone());
        }
    }
    m.records[at].cells = cells;
    m.records[at].width = width;
    m
}

pub fn gen_file(r: &mut Prng, format: Format, max_records: usize) -> FileModel {
    let n = match r.below(10) {
        0 => 1,
        1 => 2,
        2 => r.heavy(3, max_records),
        _ => r.range(2, 8.min(max_records).max(2)),
    };
    let mut records: Vec<Rec> = Vec::with_capacity(n);
    for i in 0..n {
        records.push(gen_record(r, format, i));
    }
    // some files are padded so that a record (or the whole file) ends exactly at, or one byte off, a
    // power-of-two offset: buffer capacities of the readers and of BufReader are powers of two
    if r.chance(1, 6) && format.family() != "uniprobe" {
        let probe = FileModel { format, version: None, records: records.clone() };
        let text = probe.render();
        let target = *r.pick(&[512usize, 1024, 2048, 4096, 8192, 16384]) + *r.pick(&[0usize, 1, 2]) - 1;
        // offsets at which records end
        let mut ends = Vec::new();
        let mut acc = 0usize;
        for rec in &records {
            let one = FileModel { format, version: None, records: vec![rec.clone()] }.render().len();
            acc += one;
            ends.push(acc);
        }
        let _ = text;
        if let Some(k) = ends.iter().position(|&e| e < target && target - e < 200) {
            // lengthen record k until it ends exactly at `target` (two correction rounds are enough)
            let end_of = |recs: &Vec<Rec>| -> usize {
                recs[..=k].iter().map(|rec| FileModel { format, version: None, records: vec![rec.clone()] }.render().len()).sum()
            };
            let base_desc = records[k].desc.clone();
            let base_post = records[k].post.clone();
            let mut fill = target - ends[k];
            for _ in 0..3 {
                let filler: String = std::iter::repeat('x').take(fill.max(1)).collect();
                records[k].desc = base_desc.clone();
                records[k].post = base_post.clone();
                match format.family() {
                    "transfac" => records[k].post.push(format!("CC  {}", filler)),
                    _ => records[k].desc = Some(format!("{}{}", base_desc.clone().unwrap_or_else(|| "d".to_string()), filler)),
                }
                let e = end_of(&records);
                if e == target {
                    break;
                }
                if e > target {
                    if e - target >= fill {
                        break;
                    }
                    fill -= e - target;
                } else {
                    fill += target - e;
                }
            }
        }
    }
    let version = if format.family() == "transfac" && r.chance(1, 2) {
        Some(format!("{} {}", gen_text(r, 4), r.below(100)))
    } else {
        None
    };
    FileModel {
        format,
        version,
        records,
    }
}

// --- transports --------------------------------------------------------------------------------

/// Offsets just before / inside / after each delimiter of the text (structure-aimed cuts).
pub fn delimiter_offsets(text: &[u8]) -> Vec<usize> {
    let mut v = Vec::new();
    let n = text.len();
    for i in 0..n {
        match text[i] {
            b'>' => {
                v.push(i);
                v.push(i + 1);
            }
            b'/' if i + 1 < n && text[i + 1] == b'/' => {
                v.push(i);
                v.push(i + 1);
                v.push(i + 2);
                v.push(i + 3);
            }
            b'\n' => {
                v.push(i);
                v.push(i + 1);
            }
            b'V' if i + 1 < n && text[i + 1] == b'V' && (i == 0 || text[i - 1] == b'\n') => {
                v.push(i + 1);
                v.push(i + 2);
            }
            _ => {}
        }
    }
    v.retain(|&o| o > 0 && o < n);
    v.sort_unstable();
    v.dedup();
    v
}

pub fn gen_transport(r: &mut Prng, text: &[u8], class: u64) -> Transport {
    let len = text.len().max(1);
    let mut t = Transport::all_at_once();
    // transport mode and capacity
    if class % 2 == 1 {
        t.mode = Mode::Wrapped;
        t.cap = match r.below(10) {
            0 => 1,
            1 => 2,
            2 => *r.pick(&[3usize, 7, 8, 16, 64]),
            3 => len.saturating_sub(1).max(1),
            4 => len,
            5 => len + 1,
            6 => 4096,
            7 => 8192,
            _ => r.range(1, len + 1),
        };
    }
    // chunk schedule
    match (class / 2) % 6 {
        0 => {}
        1 => t.chunks = vec![1],
        2 => t.chunks = vec![r.range(2, 64)],
        3 => {
            let n = r.range(1, 16);
            let m = (len / 4).max(1);
            t.chunks = (0..n).map(|_| r.heavy(1, m)).collect();
        }
        4 => t.chunks = vec![1, 2, 4, 8, 16, 32, 64, 128, 256],
        _ => {
            let n = r.range(2, 8);
            t.chunks = (0..n).map(|_| r.range(1, 7)).collect();
        }
    }
    // structure-aimed cuts
    if (class / 12) % 2 == 1 || r.chance(1, 3) {
        let offs = delimiter_offsets(text);
        if !offs.is_empty() {
            let n = r.range(1, 6);
            for _ in 0..n {
                t.cuts.push(*r.pick(&offs));
            }
            t.cuts.sort_unstable();
            t.cuts.dedup();
        }
    }
    // EINTR plan
    match (class / 24) % 4 {
        0 => {}
        1 => t.eintr = vec![(r.below(8), 1)],
        2 => {
            let n = r.range(1, 5);
            let mut at = 0;
            for _ in 0..n {
                at += r.below(6);
                t.eintr.push((at, r.range(1, 5) as u32));
                at += 1;
            }
        }
        _ => t.eintr = (0..64).map(|i| (i, 1)).collect(),
    }
    t
}
