//! Reference model of motif files: a list of records from which both the file text and the
//! expected parse result derive. The text is rendered deterministically from the record (its
//! whitespace style is driven by an explicit per-record `style` seed), so a scenario that stores
//! records is an explicit, replayable description of the input.

use serde::{Deserialize, Serialize};

use crate::kit::Prng;

#[derive(Clone, Copy, Debug, PartialEq, Eq, Serialize, Deserialize, PartialOrd, Ord)]
pub enum Format {
    Jaspar,
    Jaspar16Dna,
    Jaspar16Protein,
    TransfacDna,
    TransfacProtein,
    UniprobeDna,
    UniprobeProtein,
}

impl Format {
    pub const ALL: [Format; 7] = [
        Format::Jaspar,
        Format::Jaspar16Dna,
        Format::Jaspar16Protein,
        Format::TransfacDna,
        Format::TransfacProtein,
        Format::UniprobeDna,
        Format::UniprobeProtein,
    ];
    pub fn as_str(&self) -> &'static str {
        match self {
            Format::Jaspar => "jaspar",
            Format::Jaspar16Dna => "jaspar16-dna",
            Format::Jaspar16Protein => "jaspar16-protein",
            Format::TransfacDna => "transfac-dna",
            Format::TransfacProtein => "transfac-protein",
            Format::UniprobeDna => "uniprobe-dna",
            Format::UniprobeProtein => "uniprobe-protein",
        }
    }
    pub fn family(&self) -> &'static str {
        match self {
            Format::Jaspar => "jaspar",
            Format::Jaspar16Dna | Format::Jaspar16Protein => "jaspar16",
            Format::TransfacDna | Format::TransfacProtein => "transfac",
            Format::UniprobeDna | Format::UniprobeProtein => "uniprobe",
        }
    }
    pub fn is_protein(&self) -> bool {
        matches!(self, Format::Jaspar16Protein | Format::TransfacProtein | Format::UniprobeProtein)
    }
    /// Alphabet letters in library order (wildcard last).
    pub fn alphabet(&self) -> &'static str {
        if self.is_protein() {
            "ACDEFGHIKLMNPQRSTVWYX"
        } else {
            "ACTGN"
        }
    }
}

/// One motif record as written in the file.
#[derive(Clone, Debug, Serialize, Deserialize, PartialEq)]
pub struct Rec {
    /// JASPAR / UniPROBE identifier. (TRANSFAC fields live in `pre` / `post` lines.)
    pub id: String,
    /// JASPAR description (after the identifier on the header line).
    pub desc: Option<String>,
    /// Symbols in file order: matrix rows for JASPAR/JASPAR16/UniPROBE, matrix columns for TRANSFAC.
    pub syms: String,
    /// Number of motif positions.
    pub width: usize,
    /// Cell tokens as written, `cells[s * width + p]` for symbol index `s` (file order), position `p`.
    pub cells: Vec<String>,
    /// Seed of the whitespace / layout style of this record.
    pub style: u64,
    /// TRANSFAC: complete metadata lines before the matrix (no newline).
    pub pre: Vec<String>,
    /// TRANSFAC: complete metadata lines after the matrix, before `//`.
    pub post: Vec<String>,
    /// UniPROBE: blank lines after the record (0 = next record follows immediately).
    pub blank_after: u8,
}

impl Rec {
    pub fn cell(&self, s: usize, p: usize) -> &str {
        &self.cells[s * self.width + p]
    }

    /// TRANSFAC expected field: content of the last line with this two-letter tag, trimmed.
    pub fn transfac_field(&self, tag: &str) -> Option<String> {
        self.pre
            .iter()
            .chain(self.post.iter())
            .filter(|l| l.len() >= 2 && &l[..2] == tag)
            .last()
            .map(|l| l[2..].trim().to_string())
    }

    /// Number of `RN` reference blocks written.
    pub fn transfac_refs(&self) -> usize {
        self.pre
            .iter()
            .chain(self.post.iter())
            .filter(|l| l.starts_with("RN"))
            .count()
    }
}

#[derive(Clone, Debug, Serialize, Deserialize, PartialEq)]
pub struct FileModel {
    pub format: Format,
    /// TRANSFAC: optional `VV` header text.
    pub version: Option<String>,
    pub records: Vec<Rec>,
}

fn ws(r: &mut Prng, style: u8) -> &'static str {
    // style 0: single space; 1: single tab; 2: mixed runs
    match style {
        0 => " ",
        1 => "\t",
        _ => *r.pick(&[" ", "  ", "\t", "   ", " \t", "\t ", "      "]),
    }
}

fn sp(r: &mut Prng, style: u8) -> &'static str {
    // spaces-or-tabs run, possibly empty (space0)
    match style {
        0 => " ",
        1 => "",
        _ => *r.pick(&["", " ", "  ", "\t", "     "]),
    }
}

impl FileModel {
    /// Render the file. Deterministic in the model.
    pub fn render(&self) -> Vec<u8> {
        let mut out = String::new();
        match self.format.family() {
            "jaspar" => {
                for rec in &self.records {
                    let mut r = Prng::new(rec.style);
                    let st = (rec.style % 3) as u8;
                    out.push('>');
                    out.push_str(&rec.id);
                    if let Some(d) = &rec.desc {
                        out.push_str(ws(&mut r, st));
                        out.push_str(d);
                    }
                    out.push('\n');
                    for s in 0..rec.syms.len() {
                        if st == 2 && r.chance(1, 3) {
                            out.push_str(ws(&mut r, 2));
                        }
                        for p in 0..rec.width {
                            if p > 0 {
                                out.push_str(ws(&mut r, st));
                            }
                            out.push_str(rec.cell(s, p));
                        }
                        out.push('\n');
                    }
                }
            }
            "jaspar16" => {
                for rec in &self.records {
                    let mut r = Prng::new(rec.style);
                    let st = (rec.style % 3) as u8;
                    out.push('>');
                    out.push_str(&rec.id);
                    if let Some(d) = &rec.desc {
                        out.push_str(ws(&mut r, if st == 0 { 1 } else { st }));
                        out.push_str(d);
                    }
                    out.push('\n');
                    for (s, ch) in rec.syms.chars().enumerate() {
                        out.push(ch);
                        out.push_str(ws(&mut r, st));
                        out.push_str(sp(&mut r, st));
                        out.push('[');
                        out.push_str(sp(&mut r, st));
                        for p in 0..rec.width {
                            if p > 0 {
                                out.push_str(ws(&mut r, st));
                            }
                            out.push_str(rec.cell(s, p));
                        }
                        out.push_str(sp(&mut r, st));
                        out.push(']');
                        if st == 2 {
                            out.push_str(sp(&mut r, st));
                        }
                        out.push('\n');
                    }
                }
            }
            "transfac" => {
                if let Some(v) = &self.version {
                    out.push_str("VV  ");
                    out.push_str(v);
                    out.push_str("\nXX\n//\n");
                }
                for rec in &self.records {
                    let mut r = Prng::new(rec.style);
                    let st = (rec.style % 3) as u8;
                    for l in &rec.pre {
                        out.push_str(l);
                        out.push('\n');
                    }
                    out.push_str(if rec.style & 8 == 0 { "P0" } else { "PO" });
                    for ch in rec.syms.chars() {
                        out.push_str(if st == 0 { "      " } else { ws(&mut r, st) });
                        out.push(ch);
                    }
                    out.push('\n');
                    let k = rec.syms.len();
                    let consensus = rec.style & 16 == 0;
                    let from_zero = rec.style & 32 != 0;
                    for p in 0..rec.width {
                        let label = if from_zero { p } else { p + 1 };
                        out.push_str(&format!("{:02}", label));
                        for s in 0..k {
                            out.push_str(if st == 0 { "      " } else { ws(&mut r, st) });
                            out.push_str(rec.cell(s, p));
                        }
                        if consensus {
                            out.push_str(if st == 0 { "      " } else { ws(&mut r, st) });
                            out.push(*r.pick(&['A', 'C', 'G', 'T', 'N', 'R', 'Y', 'S', 'W', 'K', 'M']));
                        }
                        out.push('\n');
                    }
                    for l in &rec.post {
                        out.push_str(l);
                        out.push('\n');
                    }
                    out.push_str("//\n");
                }
            }
            _ => {
                // uniprobe
                for rec in &self.records {
                    out.push_str(&rec.id);
                    out.push('\n');
                    for (s, ch) in rec.syms.chars().enumerate() {
                        out.push(ch);
                        out.push(':');
                        for p in 0..rec.width {
                            out.push('\t');
                            out.push_str(rec.cell(s, p));
                        }
                        out.push('\n');
                    }
                    for _ in 0..rec.blank_after {
                        out.push('\n');
                    }
                }
            }
        }
        out.into_bytes()
    }
}
