//! Simulator `dense`: `DenseMatrix<T, C>` driven through histories of creations, resizes, fills,
//! row / cell writes, clones, equality checks and iterations, under an adversarial allocator
//! (exact alignment: never more aligned than asked; poisoned fresh and freed memory; growth always
//! moves), against a `Vec<Vec<T>>` reference model. Serves C19.

use std::collections::BTreeMap;

use serde::{Deserialize, Serialize};

use lightmotif::dense::{DenseMatrix, MatrixCoordinates, MatrixElement};
use lightmotif::num::{ArrayLength, U1, U16, U21, U32, U43, U5, U7};

use crate::kit::{sut, Outcome, Phase, Prng, Sim, Tier, Violation};
use crate::seam::alloc::{self, Policy};

#[derive(Clone, Copy, Debug, Serialize, Deserialize, PartialEq, Eq)]
pub enum Ty {
    U8,
    U32,
    F32,
    I64,
    /// The library's own nucleotide symbol: an element type whose default value (N = 4) is not the
    /// all-zero bit pattern.
    Nuc,
    /// 2-byte elements.
    U16,
    /// 8-byte floating-point elements.
    F64,
    /// Elements whose size (3 bytes, alignment 1) does not divide the 32-byte alignment unit: a padded row is
    /// not a whole number of elements.
    B3,
    /// 12-byte elements (alignment 4), same remark.
    F3,
}

#[derive(Clone, Copy, Debug, Serialize, Deserialize, PartialEq, Eq)]
pub enum Op {
    New(usize),
    WithCapacity(usize, usize),
    FromRows(usize, u64),
    Uninit(usize, u64),
    Resize(usize),
    Reserve(usize),
    RowWrite(usize, u64),
    CellWrite(usize, usize, i64),
    CoordWrite(usize, usize, i64),
    Fill(i64),
    Clone,
    EqOtherRoute,
    NeAfterChange(usize, usize),
    IterFwd,
    IterRev,
    IterMutAdd(i64),
    IntoIterRef,
    IterBothEnds,
    IterMutRevAdd(i64),
    /// Positional adaptors of the row iterators: nth / nth_back / rev().skip / step_by / last / count /
    /// take().rev(), checked against the same adaptors on the model's rows.
    IterAdaptors(usize),
    /// `m.clone_from(&other)` / `other.clone_into(&mut m)` where `other` is built from the seed with the
    /// given number of rows (more or fewer than `m` has).
    CloneFrom(usize, u64, bool),
}

#[derive(Clone, Debug, Serialize, Deserialize, PartialEq)]
pub struct Sc {
    pub ty: Ty,
    pub columns: usize,
    pub alloc: Policy,
    pub ops: Vec<Op>,
}

pub trait Elem: MatrixElement + PartialEq + std::fmt::Debug + 'static {
    fn from_i(i: i64) -> Self;
    fn to_i(self) -> i64;
    const NAME: &'static str;
    /// Another representation of the same value, if the type has one (a value that compares equal with
    /// `PartialEq` but has different bytes): +0.0 / -0.0 for floats.
    fn twin(self) -> Self {
        self
    }
}
impl Elem for u16 {
    fn from_i(i: i64) -> Self {
        i.rem_euclid(1 << 16) as u16
    }
    fn to_i(self) -> i64 {
        self as i64
    }
    const NAME: &'static str = "u16";
}
impl Elem for f64 {
    fn from_i(i: i64) -> Self {
        (i.rem_euclid(1 << 40) - (1 << 39)) as f64
    }
    fn to_i(self) -> i64 {
        self as i64
    }
    const NAME: &'static str = "f64";
    fn twin(self) -> Self {
        if self == 0.0 {
            -self
        } else {
            self
        }
    }
}
impl Elem for [u8; 3] {
    fn from_i(i: i64) -> Self {
        let v = i.rem_euclid(1 << 24);
        [v as u8, (v >> 8) as u8, (v >> 16) as u8]
    }
    fn to_i(self) -> i64 {
        self[0] as i64 | (self[1] as i64) << 8 | (self[2] as i64) << 16
    }
    const NAME: &'static str = "[u8;3]";
}
impl Elem for [f32; 3] {
    fn from_i(i: i64) -> Self {
        let v = i.rem_euclid(1 << 30);
        [(v & 1023) as f32, ((v >> 10) & 1023) as f32, ((v >> 20) & 1023) as f32]
    }
    fn to_i(self) -> i64 {
        self[0] as i64 | (self[1] as i64) << 10 | (self[2] as i64) << 20
    }
    const NAME: &'static str = "[f32;3]";
    fn twin(self) -> Self {
        [self[0].twin(), self[1].twin(), self[2].twin()]
    }
}
impl Elem for u8 {
    fn from_i(i: i64) -> Self {
        i.rem_euclid(256) as u8
    }
    fn to_i(self) -> i64 {
        self as i64
    }
    const NAME: &'static str = "u8";
}
impl Elem for u32 {
    fn from_i(i: i64) -> Self {
        i.rem_euclid(1 << 32) as u32
    }
    fn to_i(self) -> i64 {
        self as i64
    }
    const NAME: &'static str = "u32";
}
impl Elem for f32 {
    fn from_i(i: i64) -> Self {
        (i.rem_euclid(1 << 20) - (1 << 19)) as f32
    }
    fn to_i(self) -> i64 {
        self as i64
    }
    const NAME: &'static str = "f32";
    fn twin(self) -> Self {
        if self == 0.0 {
            -self
        } else {
            self
        }
    }
}
impl Elem for lightmotif::abc::Nucleotide {
    fn from_i(i: i64) -> Self {
        use lightmotif::abc::Nucleotide::*;
        [A, C, T, G, N][i.rem_euclid(5) as usize]
    }
    fn to_i(self) -> i64 {
        self as i64
    }
    const NAME: &'static str = "Nucleotide";
}
impl Elem for i64 {
    fn from_i(i: i64) -> Self {
        i
    }
    fn to_i(self) -> i64 {
        self
    }
    const NAME: &'static str = "i64";
}

fn op_name(op: &Op) -> &'static str {
    match op {
        Op::New(_) => "new",
        Op::WithCapacity(..) => "with_capacity",
        Op::FromRows(..) => "from_rows",
        Op::Uninit(..) => "uninitialized",
        Op::Resize(_) => "resize",
        Op::Reserve(_) => "reserve",
        Op::RowWrite(..) => "row-write",
        Op::CellWrite(..) => "cell-write",
        Op::CoordWrite(..) => "coord-write",
        Op::Fill(_) => "fill",
        Op::Clone => "clone",
        Op::EqOtherRoute => "eq",
        Op::NeAfterChange(..) => "ne",
        Op::IterFwd => "iter",
        Op::IterRev => "iter-rev",
        Op::IterMutAdd(_) => "iter_mut",
        Op::IntoIterRef => "into_iter",
        Op::IterBothEnds => "iter-both-ends",
        Op::IterMutRevAdd(_) => "iter_mut-rev",
        Op::IterAdaptors(_) => "iter-adaptors",
        Op::CloneFrom(..) => "clone_from",
    }
}

fn row_values<T: Elem>(seed: u64, r: usize, c: usize) -> Vec<T> {
    let mut p = Prng::new(seed ^ (r as u64).wrapping_mul(0x9E37_79B9));
    (0..c).map(|_| T::from_i(p.below(1 << 40) as i64)).collect()
}

fn check_all<T: Elem, C: ArrayLength>(m: &DenseMatrix<T, C>, model: &[Vec<T>]) -> Option<(String, String)> {
    let c = C::USIZE;
    if m.rows() != model.len() {
        return Some(("rows".into(), format!("rows() = {} but {} rows were requested", m.rows(), model.len())));
    }
    if m.columns() != c {
        return Some(("columns".into(), format!("columns() = {} for C = {}", m.columns(), c)));
    }
    let stride = m.stride();
    let align = if cfg!(target_arch = "x86_64") { 32 } else { 16 };
    if stride < c {
        return Some(("stride".into(), format!("stride {} < columns {}", stride, c)));
    }
    // for element sizes that do not divide the alignment unit this clause is checked once, at the end of the
    // run (see run_typed), so that it does not mask everything else about those element types
    if align % std::mem::size_of::<T>() == 0 && (stride * std::mem::size_of::<T>()) % align != 0 {
        return Some(("stride".into(), format!("stride {} x {} bytes is not a whole number of {}-byte units", stride, std::mem::size_of::<T>(), align)));
    }
    for (r, want) in model.iter().enumerate() {
        let row = &m[r];
        if row.len() != c {
            return Some(("row-len".into(), format!("row {} has {} cells", r, row.len())));
        }
        if (row.as_ptr() as usize) % align != 0 {
            return Some(("alignment".into(), format!("row {} starts at an address that is {} mod {}", r, (row.as_ptr() as usize) % align, align)));
        }
        if row != want.as_slice() {
            let col = row.iter().zip(want.iter()).position(|(a, b)| a != b).unwrap_or(0);
            return Some(("contents".into(), format!("cell ({}, {}) holds {:?} but the model says {:?}", r, col, row[col], want[col])));
        }
        for col in [0, c - 1] {
            if m[MatrixCoordinates::new(r, col)] != want[col] {
                return Some(("coordinates".into(), format!("matrix[(row {}, col {})] = {:?} but the model says {:?}", r, col, m[MatrixCoordinates::new(r, col)], want[col])));
            }
        }
    }
    None
}

fn run_typed<T: Elem, C: ArrayLength + PartialEq>(sc: &Sc, o: &mut Outcome) {
    let c = C::USIZE;
    alloc::begin_run(sc.alloc);
    let mut model: Vec<Vec<T>> = Vec::new();
    let mut m: DenseMatrix<T, C> = match sut(|| DenseMatrix::<T, C>::new(0)) {
        Ok(m) => m,
        Err(p) => {
            alloc::end_run();
            o.violate(Violation::new(p.class(), "op=new", p.msg));
            return;
        }
    };
    let mut trigrams: Vec<String> = Vec::new();
    let mut names: Vec<&'static str> = Vec::new();
    let moves_before = alloc::MOVES.load(std::sync::atomic::Ordering::Relaxed);
    for (i, op) in sc.ops.iter().enumerate() {
        o.steps += 1;
        names.push(op_name(op));
        if names.len() >= 3 {
            trigrams.push(names[names.len() - 3..].join(">"));
        }
        let tags = |part: &str| format!("op={},part={}", op_name(op), part);
        let res: Result<Option<(String, String)>, crate::kit::Panicked> = match *op {
            Op::New(n) => {
                model = vec![vec![T::default(); c]; n];
                sut(|| m = DenseMatrix::<T, C>::new(n)).map(|_| None)
            }
            Op::WithCapacity(n, cap) => {
                model = vec![vec![T::default(); c]; n];
                sut(|| m = DenseMatrix::<T, C>::with_capacity(n, cap)).map(|_| None)
            }
            Op::FromRows(n, seed) => {
                model = (0..n).map(|r| row_values::<T>(seed, r, c)).collect();
                let rows = model.clone();
                sut(|| m = DenseMatrix::<T, C>::from_rows(rows.iter())).map(|_| None)
            }
            Op::Uninit(n, seed) => {
                model = (0..n).map(|r| row_values::<T>(seed, r, c)).collect();
                let rows = model.clone();
                sut(|| {
                    let mut x = unsafe { DenseMatrix::<T, C>::uninitialized(n) };
                    for (r, row) in rows.iter().enumerate() {
                        x[r].copy_from_slice(row);
                    }
                    m = x;
                })
                .map(|_| None)
            }
            Op::Resize(n) => {
                model.resize(n, vec![T::default(); c]);
                sut(|| m.resize(n)).map(|_| None)
            }
            Op::Reserve(n) => sut(|| m.reserve(n)).map(|_| None),
            Op::RowWrite(r, seed) => {
                if model.is_empty() {
                    continue;
                }
                let r = r % model.len();
                let vals = row_values::<T>(seed, r, c);
                model[r] = vals.clone();
                sut(|| m[r].copy_from_slice(&vals)).map(|_| None)
            }
            Op::CellWrite(r, col, v) => {
                if model.is_empty() {
                    continue;
                }
                let r = r % model.len();
                let col = col % c;
                model[r][col] = T::from_i(v);
                sut(|| m[r][col] = T::from_i(v)).map(|_| None)
            }
            Op::CoordWrite(r, col, v) => {
                if model.is_empty() {
                    continue;
                }
                let r = r % model.len();
                let col = col % c;
                model[r][col] = T::from_i(v);
                sut(|| m[MatrixCoordinates::new(r, col)] = T::from_i(v)).map(|_| None)
            }
            Op::Fill(v) => {
                for row in model.iter_mut() {
                    for x in row.iter_mut() {
                        *x = T::from_i(v);
                    }
                }
                sut(|| m.fill(T::from_i(v))).map(|_| None)
            }
            Op::Clone => sut(|| {
                let x = m.clone();
                m = x;
            })
            .map(|_| None),
            Op::EqOtherRoute => {
                // a logically equal matrix built by another route, with different padding bytes and, where the
                // element type has them, other representations of the same values (0.0 / -0.0)
                let rows = model.clone();
                sut(|| {
                    let mut other = DenseMatrix::<T, C>::new(rows.len());
                    other.fill(T::from_i(0x5151_5151_5151));
                    for (r, row) in rows.iter().enumerate() {
                        for (col, &x) in row.iter().enumerate() {
                            other[r][col] = if (r + col) % 2 == 0 { x.twin() } else { x };
                        }
                    }
                    (m == other, other == m)
                })
                .map(|(a, b)| {
                    if !(a && b) {
                        Some(("equality".to_string(), "a matrix with the same logical cells (built with different padding) compares unequal".to_string()))
                    } else {
                        None
                    }
                })
            }
            Op::NeAfterChange(r, col) => {
                if model.is_empty() {
                    continue;
                }
                let r = r % model.len();
                let col = col % c;
                sut(|| {
                    let mut other = m.clone();
                    let old = other[r][col];
                    other[r][col] = T::from_i(old.to_i() + 1);
                    let changed = other[r][col] != old;
                    let mut shorter = m.clone();
                    shorter.resize(m.rows() - 1);
                    (changed, m == other, m == shorter)
                })
                .map(|(changed, eq, eq_short)| {
                    if changed && eq {
                        Some(("equality".to_string(), format!("matrices that differ in cell ({}, {}) compare equal", r, col)))
                    } else if eq_short {
                        Some(("equality".to_string(), "matrices with different row counts compare equal".to_string()))
                    } else {
                        None
                    }
                })
            }
            Op::IterFwd | Op::IntoIterRef => {
                let into = matches!(op, Op::IntoIterRef);
                sut(|| {
                    let rows: Vec<Vec<T>> = if into { (&m).into_iter().map(|r| r.to_vec()).collect() } else { m.iter().map(|r| r.to_vec()).collect() };
                    (rows, m.iter().len())
                })
                .map(|(rows, len)| {
                    if rows != model {
                        Some(("iteration".to_string(), format!("forward iteration visited {} rows that differ from the {} rows of the table", rows.len(), model.len())))
                    } else if len != model.len() {
                        Some(("iteration".to_string(), format!("iter().len() = {} for {} rows", len, model.len())))
                    } else {
                        None
                    }
                })
            }
            Op::IterRev => sut(|| m.iter().rev().map(|r| r.to_vec()).collect::<Vec<_>>()).map(|rows| {
                let mut want = model.clone();
                want.reverse();
                if rows != want {
                    Some(("iteration".to_string(), "reverse iteration did not visit exactly the rows in reverse order".to_string()))
                } else {
                    None
                }
            }),
            Op::IterBothEnds => sut(|| {
                // take alternately from the front and from the back; also check the remaining length
                let mut it = m.iter();
                let mut front: Vec<Vec<T>> = Vec::new();
                let mut back: Vec<Vec<T>> = Vec::new();
                let mut lens_ok = true;
                let mut k = 0usize;
                let total = it.len();
                loop {
                    let item = if k % 2 == 0 { it.next() } else { it.next_back() };
                    match item {
                        Some(r) => {
                            if k % 2 == 0 {
                                front.push(r.to_vec())
                            } else {
                                back.push(r.to_vec())
                            }
                        }
                        None => break,
                    }
                    k += 1;
                    if it.len() != total - k {
                        lens_ok = false;
                    }
                }
                let after_end = it.next().is_none() && it.next_back().is_none();
                back.reverse();
                front.extend(back);
                (front, lens_ok && after_end)
            })
            .map(|(rows, ok)| {
                if rows != model {
                    Some(("iteration".to_string(), "alternating next() / next_back() did not visit exactly the rows, each once, in order".to_string()))
                } else if !ok {
                    Some(("iteration".to_string(), "len() of a partly consumed iterator is wrong, or the iterator resumed after its end".to_string()))
                } else {
                    None
                }
            }),
            Op::CloneFrom(n, seed, into) => {
                let rows: Vec<Vec<T>> = (0..n).map(|r| row_values::<T>(seed, r, c)).collect();
                model = rows.clone();
                sut(|| {
                    let other = DenseMatrix::<T, C>::from_rows(rows.iter());
                    if into {
                        other.clone_into(&mut m);
                    } else {
                        m.clone_from(&other);
                    }
                    m == other
                })
                .map(|eq| {
                    if !eq {
                        Some(("equality".to_string(), "after clone_from the destination compares unequal to its source".to_string()))
                    } else {
                        None
                    }
                })
            }
            Op::IterAdaptors(k) => {
                let n = model.len();
                let a = if n == 0 { 0 } else { k % (n + 1) };
                let b = (k / 7) % 5 + 1;
                let want: Vec<Vec<Vec<T>>> = vec![
                    model.iter().nth(a).into_iter().cloned().collect(),
                    model.iter().nth_back(a).into_iter().cloned().collect(),
                    model.iter().rev().skip(a).cloned().collect(),
                    model.iter().step_by(b).cloned().collect(),
                    model.iter().rev().step_by(b).cloned().collect(),
                    model.iter().last().into_iter().cloned().collect(),
                    model.iter().take(a).rev().cloned().collect(),
                    model.iter().skip(a).cloned().collect(),
                ];
                let want_count = model.iter().count();
                sut(|| {
                    let v: Vec<Vec<Vec<T>>> = vec![
                        m.iter().nth(a).into_iter().map(|r| r.to_vec()).collect(),
                        m.iter().nth_back(a).into_iter().map(|r| r.to_vec()).collect(),
                        m.iter().rev().skip(a).map(|r| r.to_vec()).collect(),
                        m.iter().step_by(b).map(|r| r.to_vec()).collect(),
                        m.iter().rev().step_by(b).map(|r| r.to_vec()).collect(),
                        m.iter().last().into_iter().map(|r| r.to_vec()).collect(),
                        m.iter().take(a).rev().map(|r| r.to_vec()).collect(),
                        m.iter().skip(a).map(|r| r.to_vec()).collect(),
                    ];
                    // the same jumps on the mutable iterator (read-only use)
                    let vm: Vec<Vec<Vec<T>>> = vec![
                        m.iter_mut().nth(a).into_iter().map(|r| r.to_vec()).collect(),
                        m.iter_mut().nth_back(a).into_iter().map(|r| r.to_vec()).collect(),
                        m.iter_mut().rev().skip(a).map(|r| r.to_vec()).collect(),
                    ];
                    (v, vm, m.iter().count(), m.iter_mut().count())
                })
                .map(|(v, vm, c1, c2)| {
                    let names = ["nth", "nth_back", "rev().skip", "step_by", "rev().step_by", "last", "take().rev", "skip"];
                    for (i, name) in names.iter().enumerate() {
                        if v[i] != want[i] {
                            return Some(("iteration".to_string(), format!("iter().{} (n = {}, step = {}) did not visit the rows a table iterator visits", name, a, b)));
                        }
                    }
                    for i in 0..3 {
                        if vm[i] != want[i] {
                            return Some(("iteration".to_string(), format!("iter_mut().{} (n = {}) did not visit the rows a table iterator visits", names[i], a)));
                        }
                    }
                    if c1 != want_count || c2 != want_count {
                        return Some(("iteration".to_string(), format!("count() = {} / {} for {} rows", c1, c2, want_count)));
                    }
                    None
                })
            }
            Op::IterMutRevAdd(d) => {
                for (r, row) in model.iter_mut().enumerate() {
                    let col = (r + 1) % c;
                    row[col] = T::from_i(row[col].to_i() + d);
                }
                let n_rows = model.len();
                sut(|| {
                    let mut n = 0;
                    for (k, row) in (&mut m).into_iter().rev().enumerate() {
                        let r = n_rows - 1 - k;
                        let col = (r + 1) % c;
                        row[col] = T::from_i(row[col].to_i() + d);
                        n += 1;
                    }
                    n
                })
                .map(|n| {
                    if n != model.len() {
                        Some(("iteration".to_string(), format!("reverse mutable iteration visited {} rows of {}", n, model.len())))
                    } else {
                        None
                    }
                })
            }
            Op::IterMutAdd(d) => {
                for (r, row) in model.iter_mut().enumerate() {
                    let col = r % c;
                    row[col] = T::from_i(row[col].to_i() + d);
                }
                sut(|| {
                    let mut n = 0;
                    for (r, row) in m.iter_mut().enumerate() {
                        let col = r % c;
                        row[col] = T::from_i(row[col].to_i() + d);
                        n += 1;
                    }
                    n
                })
                .map(|n| {
                    if n != model.len() {
                        Some(("iteration".to_string(), format!("iter_mut visited {} rows of {}", n, model.len())))
                    } else {
                        None
                    }
                })
            }
        };
        match res {
            Err(p) => {
                alloc::end_run();
                o.violate(Violation::new(p.class(), tags("panic"), format!("op #{} {:?}: {}", i, op, p.msg)));
                return;
            }
            Ok(Some((part, detail))) => {
                alloc::end_run();
                o.violate(Violation::new("wrong-answer", tags(&part), format!("op #{} {:?}: {}", i, op, detail)));
                return;
            }
            Ok(None) => {}
        }
        if let Some((part, detail)) = check_all(&m, &model) {
            alloc::end_run();
            o.violate(Violation::new("state-mismatch", tags(&part), format!("after op #{} {:?} ({}, C={}): {}", i, op, T::NAME, c, detail)));
            return;
        }
        crate::ev!(o.trace, "op#{} {:?} rows={}", i, op, model.len());
    }
    // "the stride is ... a whole number of alignment units", for element sizes that do not divide the unit
    let align = if cfg!(target_arch = "x86_64") { 32 } else { 16 };
    if STRIDE_UNITS_CHECK.with(|c| c.get()) && o.violation.is_none() && align % std::mem::size_of::<T>() != 0 {
        let stride = m.stride();
        if (stride * std::mem::size_of::<T>()) % align != 0 {
            o.violate(Violation::new(
                "stride-not-whole-alignment-units",
                format!("type={}", T::NAME),
                format!(
                    "stride() = {} elements of {} bytes = {} bytes, which is not a whole number of {}-byte alignment units (rows are {} bytes apart)",
                    stride,
                    std::mem::size_of::<T>(),
                    stride * std::mem::size_of::<T>(),
                    align,
                    if model.len() >= 2 { (m[1].as_ptr() as usize - m[0].as_ptr() as usize).to_string() } else { "?".to_string() }
                ),
            ));
        }
    }
    if let Err(p) = sut(move || drop(m)) {
        o.violate(Violation::new(p.class(), "op=drop", p.msg));
    }
    alloc::end_run();
    if alloc::MOVES.load(std::sync::atomic::Ordering::Relaxed) > moves_before {
        o.probe("realloc-moved-a-live-matrix");
    }
    trigrams.sort();
    trigrams.dedup();
    if let Some(t) = trigrams.first() {
        o.cov = Some(format!("{}|C{}|{}|{}", T::NAME, c, sc.alloc.as_str(), t));
    }
}

pub struct DenseSim;

thread_local! {
    /// The end-of-run stride clause of C19 for element sizes that do not divide the alignment unit is only
    /// checked when the histories run for C19 itself (the `mem` simulator re-uses them for C06).
    static STRIDE_UNITS_CHECK: std::cell::Cell<bool> = const { std::cell::Cell::new(false) };
}

pub fn gen_world(r: &mut Prng, idx: u64) -> Sc {
    let ty = [Ty::U8, Ty::U32, Ty::F32, Ty::I64, Ty::Nuc, Ty::U16, Ty::F64, Ty::B3, Ty::F3][(idx % 9) as usize];
    let columns = [1usize, 5, 7, 16, 21, 32, 43][((idx / 9) % 7) as usize];
    let alloc = if (idx / 63) % 3 == 0 { Policy::System } else { Policy::ExactPoison };
    let n = r.range(3, 30);
    let mut ops = Vec::with_capacity(n);
    // one world in 500 works with matrices beyond 2 MiB / 2^16 rows (few operations: every check is O(rows))
    let huge = idx % 500 == 499;
    let n = if huge { r.range(3, 6) } else { n };
    let rows = |r: &mut Prng| match r.below(14) {
        _ if huge => *r.pick(&[5957usize, 5958, 8192, 16384, 32768, 65535, 65536, 65537, 70000]),
        0 | 1 => 0,
        2 | 3 => 1,
        4 | 5 => r.range(100, 600),
        6 => *r.pick(&[3usize, 4, 5, 7, 8, 9, 15, 16, 17, 31, 32, 33, 63, 64, 65, 127, 128, 129, 255, 256, 257]),
        7 => *r.pick(&[1023usize, 1024, 1025, 4095, 4096, 4097]),
        _ => r.range(1, 40),
    };
    for _ in 0..n {
        ops.push(match r.below(27) {
            0 => Op::New(rows(r)),
            1 => {
                let n = rows(r);
                Op::WithCapacity(n, n + r.range(0, 64))
            }
            2 => Op::FromRows(rows(r), r.next_u64()),
            3 => Op::Uninit(rows(r), r.next_u64()),
            4 | 5 | 6 | 7 => Op::Resize(rows(r)),
            8 => Op::Reserve(r.range(0, 300)),
            9 | 10 => Op::RowWrite(r.next_u64() as usize, r.next_u64()),
            11 => Op::CellWrite(r.next_u64() as usize, r.next_u64() as usize, r.below(1 << 40) as i64),
            12 => Op::CoordWrite(r.next_u64() as usize, r.next_u64() as usize, r.below(1 << 40) as i64),
            13 => Op::Fill(r.below(1 << 30) as i64),
            14 | 15 => Op::Clone,
            16 => Op::EqOtherRoute,
            17 => Op::NeAfterChange(r.next_u64() as usize, r.next_u64() as usize),
            18 => Op::IterFwd,
            19 => Op::IterRev,
            20 => Op::IterMutAdd(r.range(1, 100) as i64),
            21 => Op::IterBothEnds,
            22 => Op::IterMutRevAdd(r.range(1, 100) as i64),
            23 | 24 => Op::IterAdaptors(r.next_u64() as usize >> 8),
            25 if r.chance(1, 2) => Op::CloneFrom(rows(r), r.next_u64(), r.chance(1, 3)),
            _ => Op::IntoIterRef,
        });
    }
    Sc { ty, columns, alloc, ops }
}

macro_rules! dispatch_c {
    ($t:ty, $sc:expr, $o:expr) => {
        match $sc.columns {
            1 => run_typed::<$t, U1>($sc, $o),
            5 => run_typed::<$t, U5>($sc, $o),
            7 => run_typed::<$t, U7>($sc, $o),
            16 => run_typed::<$t, U16>($sc, $o),
            21 => run_typed::<$t, U21>($sc, $o),
            32 => run_typed::<$t, U32>($sc, $o),
            43 => run_typed::<$t, U43>($sc, $o),
            other => {
                eprintln!("HARNESS: unsupported column count {}", other);
                std::process::exit(2);
            }
        }
    };
}

pub fn run_sc(sc: &Sc, o: &mut Outcome) {
    o.probe(match sc.alloc {
        Policy::System => "alloc=system",
        Policy::ExactPoison => "alloc=exact-align+poison",
        Policy::GuardEnd => "alloc=guard-end",
        Policy::GuardStart => "alloc=guard-start",
    });
    o.probe(match sc.ty {
        Ty::U8 => "type=u8",
        Ty::U32 => "type=u32",
        Ty::F32 => "type=f32",
        Ty::I64 => "type=i64",
        Ty::Nuc => "type=Nucleotide",
        Ty::U16 => "type=u16",
        Ty::F64 => "type=f64",
        Ty::B3 => "type=[u8;3]",
        Ty::F3 => "type=[f32;3]",
    });
    match sc.ty {
        Ty::U8 => dispatch_c!(u8, sc, o),
        Ty::U32 => dispatch_c!(u32, sc, o),
        Ty::F32 => dispatch_c!(f32, sc, o),
        Ty::I64 => dispatch_c!(i64, sc, o),
        Ty::Nuc => dispatch_c!(lightmotif::abc::Nucleotide, sc, o),
        Ty::U16 => dispatch_c!(u16, sc, o),
        Ty::F64 => dispatch_c!(f64, sc, o),
        Ty::B3 => dispatch_c!([u8; 3], sc, o),
        Ty::F3 => dispatch_c!([f32; 3], sc, o),
    }
}

impl Sim for DenseSim {
    type Sc = Sc;
    const NAME: &'static str = "dense";

    fn plan(_prop: &str, tier: Tier) -> Vec<Phase> {
        match tier {
            Tier::Quick => vec![Phase { name: "histories", count: 1_500_000, exhaustive: false }],
            Tier::Thorough => vec![Phase { name: "histories", count: 30_000_000, exhaustive: false }],
        }
    }

    fn generate(_prop: &str, _tier: Tier, _phase: &str, idx: u64, r: &mut Prng) -> Sc {
        gen_world(r, idx)
    }

    fn run(_prop: &str, sc: &Sc, keep_trace: bool) -> Outcome {
        let mut o = Outcome::new(keep_trace);
        STRIDE_UNITS_CHECK.with(|c| c.set(true));
        run_sc(sc, &mut o);
        STRIDE_UNITS_CHECK.with(|c| c.set(false));
        o
    }

    fn shrink(sc: &Sc) -> Vec<Sc> {
        let mut out = Vec::new();
        let n = sc.ops.len();
        if n > 1 {
            for (a, b) in [(0, n / 2), (n / 2, n)] {
                let mut s = sc.clone();
                s.ops.drain(a..b);
                out.push(s);
            }
            for i in 0..n {
                let mut s = sc.clone();
                s.ops.remove(i);
                out.push(s);
            }
        }
        for (i, op) in sc.ops.iter().enumerate() {
            let smaller = |x: usize| -> Vec<usize> {
                let mut v = vec![];
                if x > 0 {
                    v.push(x / 2);
                    v.push(x - 1);
                }
                v
            };
            match *op {
                Op::New(x) => {
                    for y in smaller(x) {
                        let mut s = sc.clone();
                        s.ops[i] = Op::New(y);
                        out.push(s);
                    }
                }
                Op::Resize(x) => {
                    for y in smaller(x) {
                        let mut s = sc.clone();
                        s.ops[i] = Op::Resize(y);
                        out.push(s);
                    }
                }
                Op::FromRows(x, seed) => {
                    for y in smaller(x) {
                        let mut s = sc.clone();
                        s.ops[i] = Op::FromRows(y, seed);
                        out.push(s);
                    }
                }
                Op::Uninit(x, seed) => {
                    for y in smaller(x) {
                        let mut s = sc.clone();
                        s.ops[i] = Op::Uninit(y, seed);
                        out.push(s);
                    }
                }
                Op::WithCapacity(x, cap) => {
                    for y in smaller(x) {
                        let mut s = sc.clone();
                        s.ops[i] = Op::WithCapacity(y, cap);
                        out.push(s);
                    }
                }
                _ => {}
            }
        }
        if sc.alloc != Policy::System && !sc.alloc.is_guard() {
            let mut s = sc.clone();
            s.alloc = Policy::System;
            out.push(s);
        }
        out
    }

    fn size(sc: &Sc) -> BTreeMap<&'static str, u64> {
        let mut m = BTreeMap::new();
        m.insert("ops", sc.ops.len() as u64);
        m
    }

    fn needs_child(sc: &Sc) -> bool {
        sc.alloc.is_guard()
    }

    fn rule(_prop: &str) -> String {
        "Cases: histories of 3..30 operations (new, with_capacity, from_rows, uninitialized + full write, resize up / down / same, reserve, row write, cell write by [row][col] and by MatrixCoordinates, fill, clone, clone_from / clone_into from a taller or shorter matrix, equality against a logically equal matrix built by another route with different padding bytes, inequality after a one-cell change or a row-count change, forward / reverse / alternating-ends / mutable / reverse-mutable / by-reference iteration, positional adaptors nth / nth_back / rev().skip / step_by / last / count / take().rev) on DenseMatrix<T, C>, T in {u8, u16, u32, f32, f64, i64, Nucleotide (default value N = 4, not the zero bit pattern), [u8; 3] and [f32; 3] (3- and 12-byte elements: sizes that do not divide the 32-byte unit)}; equality also against 0.0 / -0.0 twins of the float cells, C in {1, 5, 7, 16, 21, 32, 43}, under the system allocator or the exact-align+poison allocator (addresses are multiples of the requested alignment but never of twice it; fresh memory 0xA5; freed memory 0x5A; growth always moves). After every operation: row count, column count, stride >= C and a whole number of 32-byte units (for element sizes that do not divide 32 this clause is checked once, at the end of the history), every row's address mod 32 = 0, every cell equal to the Vec<Vec<T>> model. Distinct = distinct tuples (T, C, allocator policy, first operation trigram). Non-trivial = at least three operations (every history).".to_string()
    }

    fn required_probes(_prop: &str, _tier: Tier) -> Vec<&'static str> {
        vec!["realloc-moved-a-live-matrix"]
    }

    fn components(_prop: &str) -> (Vec<String>, Vec<String>) {
        (vec!["lightmotif::dense (DenseMatrix, Row, iterators)".into()], vec!["allocator (SimAlloc)".into()])
    }

    fn assumptions(_prop: &str) -> Vec<String> {
        vec![
            "Alignment target is 32 bytes (x86-64 build).".into(),
            "`uninitialized` is used only followed by a full write of every row, as its contract requires.".into(),
        ]
    }
}
