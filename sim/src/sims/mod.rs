pub mod dense;
pub mod gibbs;
pub mod mem;
pub mod scan;
pub mod stream;
pub mod stripe;
