pub mod stream;
