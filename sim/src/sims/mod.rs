pub mod scan;
pub mod stream;
