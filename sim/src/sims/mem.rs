//! Simulator `mem`: the workloads of the other simulators plus a direct-call generator over the
//! safe public API, executed under allocator policies that remove the luck from memory errors:
//! every heap block in its own pages, flush against an inaccessible page after its end
//! (`guard-end`) or before its start (`guard-start`), freed blocks unmapped until the run ends; and
//! `exact-align+poison`. One byte read or written outside a live block, any touch of a freed block
//! and any misaligned aligned-move is a synchronous trap that kills the worker; the parent
//! attributes it to the run in flight. Serves C06.

use std::collections::BTreeMap;

use serde::{Deserialize, Serialize};

use lightmotif::abc::{Alphabet, Background, Dna, Protein};
use lightmotif::dense::DenseMatrix;
use lightmotif::num::{Unsigned, U32};
use lightmotif::pli::platform::{Avx2, Generic, Sse2};
use lightmotif::pli::{Encode, Maximum, Pipeline, Score, Stripe, Threshold};
use lightmotif::pwm::ScoringMatrix;
use lightmotif::scores::StripedScores;
use lightmotif::seq::{EncodedSequence, StripedSequence};

use super::{dense, gibbs, scan, stripe};
use crate::kit::{sut, Outcome, Panicked, Phase, Prng, Sim, Tier, Violation};
use crate::seam::alloc::{self, Policy};
use crate::seam::cpu::{self, Host};

#[derive(Clone, Copy, Debug, Serialize, Deserialize, PartialEq, Eq)]
pub enum Be {
    Generic,
    Sse2,
    Avx2,
    Dispatch,
}

#[derive(Clone, Copy, Debug, Serialize, Deserialize, PartialEq, Eq)]
pub enum DOp {
    /// Encode `len` bytes of valid text (seeded); `bad` = offset of one invalid byte, if any.
    Encode { be: Be, len: usize, seed: u64, bad: Option<usize>, into: bool },
    /// encode_into between sub-slices of larger buffers: source starts `src_off` bytes into its
    /// allocation, destination `dst_off` symbols into its allocation (different alignments mod 32).
    EncodeSub { be: Be, len: usize, seed: u64, src_off: usize, dst_off: usize },
    Stripe { be: Be },
    StripeInto { be: Be },
    Configure { width: usize, seed: u64 },
    Score { be: Be, sub: Option<(usize, usize)> },
    ScoreU8 { be: Be, sub: Option<(usize, usize)> },
    Max { be: Be },
    Argmax { be: Be },
    Threshold { be: Be, t_bits: u32 },
    MaxU8 { be: Be },
    ArgmaxU8 { be: Be },
    ThresholdU8 { be: Be, t: u8 },
    CloneAll,
}

#[derive(Clone, Debug, Serialize, Deserialize, PartialEq)]
pub struct Direct {
    pub protein: bool,
    pub host: Host,
    pub alloc: Policy,
    pub ops: Vec<DOp>,
}

#[derive(Clone, Debug, Serialize, Deserialize, PartialEq)]
pub enum Sc {
    Scan(scan::Sc),
    Stripe(stripe::Sc),
    Gibbs(gibbs::Sc),
    Dense(dense::Sc),
    Direct(Direct),
}

impl Sc {
    pub fn alloc(&self) -> Policy {
        match self {
            Sc::Scan(s) => s.alloc,
            Sc::Stripe(s) => s.alloc,
            Sc::Gibbs(s) => s.alloc,
            Sc::Dense(s) => s.alloc,
            Sc::Direct(s) => s.alloc,
        }
    }
    fn set_alloc(&mut self, p: Policy) {
        match self {
            Sc::Scan(s) => s.alloc = p,
            Sc::Stripe(s) => s.alloc = p,
            Sc::Gibbs(s) => s.alloc = p,
            Sc::Dense(s) => s.alloc = p,
            Sc::Direct(s) => s.alloc = p,
        }
    }
    fn kind(&self) -> &'static str {
        match self {
            Sc::Scan(_) => "scan",
            Sc::Stripe(_) => "stripe",
            Sc::Gibbs(_) => "gibbs",
            Sc::Dense(_) => "dense",
            Sc::Direct(_) => "direct",
        }
    }
}

fn dop_name(op: &DOp) -> &'static str {
    match op {
        DOp::Encode { into: false, .. } => "encode",
        DOp::Encode { into: true, .. } => "encode_into",
        DOp::EncodeSub { .. } => "encode_into(sub-slices)",
        DOp::Stripe { .. } => "stripe",
        DOp::StripeInto { .. } => "stripe_into",
        DOp::Configure { .. } => "configure",
        DOp::Score { sub: None, .. } => "score",
        DOp::Score { .. } => "score_rows_into",
        DOp::ScoreU8 { sub: None, .. } => "score-u8",
        DOp::ScoreU8 { .. } => "score_rows_into-u8",
        DOp::Max { .. } => "max",
        DOp::Argmax { .. } => "argmax",
        DOp::Threshold { .. } => "threshold",
        DOp::MaxU8 { .. } => "max-u8",
        DOp::ArgmaxU8 { .. } => "argmax-u8",
        DOp::ThresholdU8 { .. } => "threshold-u8",
        DOp::CloneAll => "clone",
    }
}

/// Is a panic a memory-safety signal (kernel assertion on pointer alignment / bounds)?
fn panic_is_memory_signal(p: &Panicked) -> bool {
    p.file.contains("pli/platform/") || p.msg.contains("misaligned") || p.msg.contains("unsafe precondition")
}

struct State<A: Alphabet> {
    text_len: usize,
    enc: EncodedSequence<A>,
    striped: StripedSequence<A, U32>,
    pssm: ScoringMatrix<A>,
    scores: StripedScores<f32, U32>,
    dscores: StripedScores<u8, U32>,
}

fn random_pssm<A: Alphabet>(width: usize, seed: u64) -> ScoringMatrix<A> {
    let k = A::K::USIZE;
    let mut r = Prng::new(seed);
    let mut d = DenseMatrix::<f32, A::K>::new(width);
    for i in 0..width {
        for j in 0..k {
            d[i][j] = if j == k - 1 { f32::NEG_INFINITY } else { (r.unit_f64() * 10.0 - 7.0) as f32 };
        }
    }
    ScoringMatrix::new(Background::uniform(), d)
}

macro_rules! with_be {
    ($be:expr, $A:ty, |$p:ident| $body:expr, sse2_ok = $sse2:expr) => {
        match $be {
            Be::Generic => {
                let $p = Pipeline::<$A, Generic>::generic();
                $body
            }
            Be::Sse2 if $sse2 => {
                let $p = Pipeline::<$A, Sse2>::sse2().expect("HARNESS: sse2");
                $body
            }
            Be::Avx2 if cpu::real_host_has_avx2() => {
                let $p = Pipeline::<$A, Avx2>::avx2().expect("HARNESS: avx2");
                $body
            }
            Be::Dispatch => {
                let $p = Pipeline::<$A, _>::dispatch();
                $body
            }
            _ => {
                let $p = Pipeline::<$A, Generic>::generic();
                $body
            }
        }
    };
}

macro_rules! with_be_nosse2 {
    ($be:expr, $A:ty, |$p:ident| $body:expr) => {
        match $be {
            Be::Avx2 if cpu::real_host_has_avx2() => {
                let $p = Pipeline::<$A, Avx2>::avx2().expect("HARNESS: avx2");
                $body
            }
            Be::Dispatch => {
                let $p = Pipeline::<$A, _>::dispatch();
                $body
            }
            _ => {
                let $p = Pipeline::<$A, Generic>::generic();
                $body
            }
        }
    };
}

fn run_direct_typed<A: Alphabet>(sc: &Direct, o: &mut Outcome, u8_ops: bool) {
    let letters = A::as_str().as_bytes();
    alloc::begin_run(sc.alloc);
    let init = sut(|| State::<A> {
        text_len: 0,
        enc: EncodedSequence::new(Vec::new()),
        striped: StripedSequence::default(),
        pssm: random_pssm::<A>(1, 1),
        scores: StripedScores::empty(),
        dscores: StripedScores::empty(),
    });
    let mut st = match init {
        Ok(s) => s,
        Err(p) => {
            alloc::end_run();
            o.violate(Violation::new(p.class(), "op=init", p.msg));
            return;
        }
    };
    let mut names: Vec<&'static str> = Vec::new();
    for (i, op) in sc.ops.iter().enumerate() {
        o.steps += 1;
        names.push(dop_name(op));
        let r: Result<(), Panicked> = match *op {
            DOp::Encode { be, len, seed, bad, into } => sut(|| {
                // the text buffer is an allocation owned by the arguments: it is built in scope
                let mut pr = Prng::new(seed);
                let mut text: Vec<u8> = (0..len).map(|_| *pr.pick(letters)).collect();
                if let Some(b) = bad {
                    if len > 0 {
                        text[b % len] = b'.';
                    }
                }
                cpu::with_host(sc.host, || {
                    let res = if into {
                        let mut dst = vec![A::default_symbol(); len];
                        with_be!(be, A, |p| p.encode_into(&text, &mut dst).map(|_| EncodedSequence::<A>::new(dst)), sse2_ok = true)
                    } else {
                        with_be!(be, A, |p| p.encode(&text), sse2_ok = true)
                    };
                    if let Ok(e) = res {
                        st.text_len = len;
                        st.enc = e;
                    }
                })
            }),
            DOp::EncodeSub { be, len, seed, src_off, dst_off } => sut(|| {
                let mut pr = Prng::new(seed);
                let so = src_off % 67;
                let d_o = dst_off % 67;
                let text: Vec<u8> = (0..len + so + 3).map(|_| *pr.pick(letters)).collect();
                let mut dst = vec![A::default_symbol(); len + d_o + 5];
                cpu::with_host(sc.host, || {
                    let res = with_be!(be, A, |p| p.encode_into(&text[so..so + len], &mut dst[d_o..d_o + len]), sse2_ok = true);
                    if res.is_ok() {
                        dst.truncate(d_o + len);
                        let enc: Vec<A::Symbol> = dst[d_o..].to_vec();
                        st.text_len = len;
                        st.enc = EncodedSequence::<A>::new(enc);
                    }
                })
            }),
            DOp::Stripe { be } => sut(|| {
                cpu::with_host(sc.host, || {
                    let s: &[A::Symbol] = st.enc.as_ref();
                    st.striped = with_be_nosse2!(be, A, |p| p.stripe(s));
                })
            }),
            DOp::StripeInto { be } => sut(|| {
                cpu::with_host(sc.host, || {
                    let s: &[A::Symbol] = st.enc.as_ref();
                    with_be_nosse2!(be, A, |p| p.stripe_into(s, &mut st.striped));
                })
            }),
            DOp::Configure { width, seed } => sut(|| {
                st.pssm = random_pssm::<A>(width.max(1), seed);
                st.striped.configure(&st.pssm);
            }),
            DOp::Score { be, sub } => sut(|| {
                cpu::with_host(sc.host, || {
                    st.striped.configure(&st.pssm);
                    let rows = st.striped.matrix().rows() - st.striped.wrap();
                    match sub {
                        None => {
                            st.scores = with_be!(be, A, |p| p.score(&st.pssm, &st.striped), sse2_ok = true);
                        }
                        Some((a, b)) => {
                            let (a, b) = if rows == 0 { (0, 0) } else { (a % (rows + 1), b % (rows + 1)) };
                            let (a, b) = (a.min(b), a.max(b));
                            with_be!(be, A, |p| p.score_rows_into(&st.pssm, &st.striped, a..b, &mut st.scores), sse2_ok = true);
                        }
                    }
                })
            }),
            DOp::Max { be } => sut(|| {
                cpu::with_host(sc.host, || {
                    let _ = with_be!(be, A, |p| Maximum::<f32, U32>::max(&p, &st.scores), sse2_ok = true);
                })
            }),
            DOp::Argmax { be } => sut(|| {
                cpu::with_host(sc.host, || {
                    let _ = with_be!(be, A, |p| Maximum::<f32, U32>::argmax(&p, &st.scores), sse2_ok = true);
                })
            }),
            DOp::Threshold { be, t_bits } => sut(|| {
                cpu::with_host(sc.host, || {
                    let _ = with_be!(be, A, |p| Threshold::<f32, U32>::threshold(&p, &st.scores, f32::from_bits(t_bits)), sse2_ok = true);
                })
            }),
            DOp::MaxU8 { be } => sut(|| {
                cpu::with_host(sc.host, || {
                    let _ = with_be!(be, A, |p| Maximum::<u8, U32>::max(&p, &st.dscores), sse2_ok = true);
                })
            }),
            DOp::ArgmaxU8 { be } => sut(|| {
                cpu::with_host(sc.host, || {
                    let _ = with_be!(be, A, |p| Maximum::<u8, U32>::argmax(&p, &st.dscores), sse2_ok = true);
                })
            }),
            DOp::ThresholdU8 { be, t } => sut(|| {
                cpu::with_host(sc.host, || {
                    let _ = with_be!(be, A, |p| Threshold::<u8, U32>::threshold(&p, &st.dscores, t), sse2_ok = true);
                })
            }),
            DOp::ScoreU8 { .. } => {
                if !u8_ops {
                    continue;
                }
                Ok(())
            }
            DOp::CloneAll => sut(|| {
                let e = st.enc.clone();
                let s = st.striped.clone();
                let p = st.pssm.clone();
                let sc2 = st.scores.clone();
                st.enc = e;
                st.striped = s;
                st.pssm = p;
                st.scores = sc2;
            }),
        };
        if let Err(p) = r {
            if panic_is_memory_signal(&p) {
                alloc::end_run();
                o.violate(Violation::new(p.class(), format!("op={}", dop_name(op)), format!("op #{} {:?}: {}", i, op, p.msg)));
                return;
            }
            o.probe("direct-call-panicked(ignored:not-a-memory-signal)");
        }
        crate::ev!(o.trace, "op#{} {:?} L={} rows={} wrap={} M={}", i, op, st.text_len, st.striped.matrix().rows(), st.striped.wrap(), st.pssm.len());
    }
    let _ = sut(move || drop(st));
    alloc::end_run();
}

/// u8 scoring exists for DNA only: a separate pass over the same op list handles ScoreU8.
fn run_direct_dna_u8(sc: &Direct, o: &mut Outcome) {
    let letters = b"ACGTN";
    alloc::begin_run(sc.alloc);
    let mut enc = EncodedSequence::<Dna>::new(Vec::new());
    let mut striped: StripedSequence<Dna, U32> = StripedSequence::default();
    let mut pssm = random_pssm::<Dna>(1, 1);
    let mut dscores: StripedScores<u8, U32> = StripedScores::empty();
    for (i, op) in sc.ops.iter().enumerate() {
        let r: Result<(), Panicked> = match *op {
            DOp::Encode { len, seed, .. } => sut(|| {
                let mut pr = Prng::new(seed);
                let text: Vec<u8> = (0..len).map(|_| *pr.pick(&letters[..])).collect();
                enc = cpu::with_host(sc.host, || EncodedSequence::<Dna>::encode(&text)).expect("HARNESS: valid text");
                striped = cpu::with_host(sc.host, || enc.to_striped());
            }),
            DOp::Configure { width, seed } => sut(|| {
                pssm = random_pssm::<Dna>(width.max(1), seed);
                striped.configure(&pssm);
            }),
            DOp::ScoreU8 { be, sub } => sut(|| {
                cpu::with_host(sc.host, || {
                    striped.configure(&pssm);
                    let dm = pssm.to_discrete();
                    let rows = striped.matrix().rows() - striped.wrap();
                    let (a, b) = match sub {
                        None => (0, rows),
                        Some((a, b)) => {
                            let (a, b) = if rows == 0 { (0, 0) } else { (a % (rows + 1), b % (rows + 1)) };
                            (a.min(b), a.max(b))
                        }
                    };
                    match be {
                        Be::Avx2 if cpu::real_host_has_avx2() => Pipeline::<Dna, Avx2>::avx2().unwrap().score_rows_into(&dm, &striped, a..b, &mut dscores),
                        Be::Dispatch => Pipeline::<Dna, _>::dispatch().score_rows_into(&dm, &striped, a..b, &mut dscores),
                        Be::Sse2 => Pipeline::<Dna, Sse2>::sse2().unwrap().score_rows_into(&dm, &striped, a..b, &mut dscores),
                        _ => Pipeline::<Dna, Generic>::generic().score_rows_into(&dm, &striped, a..b, &mut dscores),
                    }
                })
            }),
            DOp::MaxU8 { be } | DOp::ArgmaxU8 { be } => sut(|| {
                cpu::with_host(sc.host, || {
                    let _ = with_be!(be, Dna, |p| (Maximum::<u8, U32>::max(&p, &dscores), Maximum::<u8, U32>::argmax(&p, &dscores)), sse2_ok = true);
                })
            }),
            DOp::ThresholdU8 { be, t } => sut(|| {
                cpu::with_host(sc.host, || {
                    let _ = with_be!(be, Dna, |p| Threshold::<u8, U32>::threshold(&p, &dscores, t), sse2_ok = true);
                })
            }),
            _ => Ok(()),
        };
        if let Err(p) = r {
            if panic_is_memory_signal(&p) {
                alloc::end_run();
                o.violate(Violation::new(p.class(), format!("op={}", dop_name(op)), format!("u8 pass, op #{} {:?}: {}", i, op, p.msg)));
                return;
            }
            o.probe("direct-call-panicked(ignored:not-a-memory-signal)");
        }
    }
    let _ = sut(move || {
        drop(enc);
        drop(striped);
        drop(pssm);
        drop(dscores);
    });
    alloc::end_run();
}

/// Same op list on a 16-column layout (the SSE2 lane count): generic and SSE2 pipelines only.
fn run_direct_c16<A: Alphabet>(sc: &Direct, o: &mut Outcome) {
    use lightmotif::num::U16;
    let letters = A::as_str().as_bytes();
    alloc::begin_run(sc.alloc);
    let mut enc = EncodedSequence::<A>::new(Vec::new());
    let mut striped: StripedSequence<A, U16> = StripedSequence::default();
    let mut pssm = random_pssm::<A>(1, 1);
    let mut scores: StripedScores<f32, U16> = StripedScores::empty();
    for (i, op) in sc.ops.iter().enumerate() {
        let r: Result<(), Panicked> = match *op {
            DOp::Encode { be, len, seed, .. } => sut(|| {
                let mut pr = Prng::new(seed);
                let text: Vec<u8> = (0..len).map(|_| *pr.pick(letters)).collect();
                enc = match be {
                    Be::Sse2 | Be::Avx2 => Pipeline::<A, Sse2>::sse2().unwrap().encode(&text),
                    _ => Pipeline::<A, Generic>::generic().encode(&text),
                }
                .expect("HARNESS: valid text");
                let s: &[A::Symbol] = enc.as_ref();
                striped = Pipeline::<A, Generic>::generic().stripe(s);
            }),
            DOp::StripeInto { .. } => sut(|| {
                let s: &[A::Symbol] = enc.as_ref();
                Pipeline::<A, Generic>::generic().stripe_into(s, &mut striped);
            }),
            DOp::Configure { width, seed } => sut(|| {
                pssm = random_pssm::<A>(width.max(1), seed);
                striped.configure(&pssm);
            }),
            DOp::Score { be, sub } => sut(|| {
                striped.configure(&pssm);
                let rows = striped.matrix().rows() - striped.wrap();
                let (a, b) = match sub {
                    None => (0, rows),
                    Some((a, b)) => {
                        let (a, b) = if rows == 0 { (0, 0) } else { (a % (rows + 1), b % (rows + 1)) };
                        (a.min(b), a.max(b))
                    }
                };
                match be {
                    Be::Generic => Pipeline::<A, Generic>::generic().score_rows_into(&pssm, &striped, a..b, &mut scores),
                    _ => Pipeline::<A, Sse2>::sse2().unwrap().score_rows_into(&pssm, &striped, a..b, &mut scores),
                }
            }),
            DOp::Max { be } | DOp::Argmax { be } => sut(|| {
                let _ = match be {
                    Be::Generic => (Maximum::<f32, U16>::max(&Pipeline::<A, Generic>::generic(), &scores), Maximum::<f32, U16>::argmax(&Pipeline::<A, Generic>::generic(), &scores)),
                    _ => (Maximum::<f32, U16>::max(&Pipeline::<A, Sse2>::sse2().unwrap(), &scores), Maximum::<f32, U16>::argmax(&Pipeline::<A, Sse2>::sse2().unwrap(), &scores)),
                };
            }),
            DOp::Threshold { t_bits, .. } => sut(|| {
                let _ = Threshold::<f32, U16>::threshold(&Pipeline::<A, Sse2>::sse2().unwrap(), &scores, f32::from_bits(t_bits));
            }),
            DOp::CloneAll => sut(|| {
                let s2 = striped.clone();
                let sc2 = scores.clone();
                striped = s2;
                scores = sc2;
            }),
            _ => Ok(()),
        };
        if let Err(p) = r {
            if panic_is_memory_signal(&p) {
                alloc::end_run();
                o.violate(Violation::new(p.class(), format!("op={},C=16", dop_name(op)), format!("16-column pass, op #{} {:?}: {}", i, op, p.msg)));
                return;
            }
            o.probe("direct-call-panicked(ignored:not-a-memory-signal)");
        }
    }
    let _ = sut(move || {
        drop(enc);
        drop(striped);
        drop(pssm);
        drop(scores);
    });
    alloc::end_run();
}

fn gen_len(r: &mut Prng) -> usize {
    match r.below(400) {
        // beyond every "large input" threshold of the kernels (2^18 letters, 1 MiB matrices)
        0 => *r.pick(&[262_143usize, 262_144, 262_145, 300_000, 1_048_576, 1_048_577, 1_100_000]),
        _ => gen_len_common(r),
    }
}

fn gen_len_common(r: &mut Prng) -> usize {
    match r.below(12) {
        0 => 0,
        1 => r.range(1, 15),
        2 => 16 * r.range(1, 8) + r.range(0, 2),
        3 => 32 * r.range(1, 40) - r.range(0, 1),
        4 => r.range(990, 1060),
        5 => 32 * 32 * r.range(1, 3) + r.range(0, 40),
        6 => 32 * 256 - 40 + r.range(0, 80),
        7 => r.range(31, 34),
        _ => r.heavy(1, 2500),
    }
}

fn gen_direct(r: &mut Prng, idx: u64) -> Direct {
    let protein = idx % 3 == 1;
    let host = [Host::Avx2, Host::Sse2, Host::Generic, Host::Avx2][((idx / 3) % 4) as usize];
    let host = if host == Host::Avx2 && !cpu::real_host_has_avx2() { Host::Sse2 } else { host };
    let bes = [Be::Generic, Be::Sse2, Be::Avx2, Be::Dispatch, Be::Avx2, Be::Dispatch];
    let n = r.range(3, 14);
    let mut ops = Vec::with_capacity(n + 3);
    ops.push(DOp::Encode { be: *r.pick(&bes), len: gen_len(r), seed: r.next_u64(), bad: None, into: r.chance(1, 3) });
    ops.push(DOp::Stripe { be: *r.pick(&bes) });
    ops.push(DOp::Configure { width: r.range(1, 40), seed: r.next_u64() });
    for _ in 0..n {
        let be = *r.pick(&bes);
        ops.push(match r.below(20) {
            0 | 1 => {
                let len = gen_len(r);
                DOp::Encode { be, len, seed: r.next_u64(), bad: if r.chance(1, 4) { Some(r.next_u64() as usize) } else { None }, into: r.chance(1, 3) }
            }
            2 if r.chance(1, 2) => {
                let len = gen_len(r);
                DOp::EncodeSub { be, len, seed: r.next_u64(), src_off: r.next_u64() as usize, dst_off: r.next_u64() as usize }
            }
            2 => DOp::Stripe { be },
            3 | 4 => DOp::StripeInto { be },
            5 => DOp::Configure { width: r.range(1, 45), seed: r.next_u64() },
            6 | 7 => DOp::Score { be, sub: None },
            8 | 9 => DOp::Score { be, sub: Some((r.next_u64() as usize, r.next_u64() as usize)) },
            10 => DOp::ScoreU8 { be, sub: None },
            11 => DOp::ScoreU8 { be, sub: Some((r.next_u64() as usize, r.next_u64() as usize)) },
            12 => DOp::Max { be },
            13 => DOp::Argmax { be },
            14 => DOp::Threshold { be, t_bits: ((r.unit_f64() * 30.0 - 25.0) as f32).to_bits() },
            15 => DOp::MaxU8 { be },
            16 => DOp::ArgmaxU8 { be },
            17 => DOp::ThresholdU8 { be, t: r.below(256) as u8 },
            _ => DOp::CloneAll,
        });
    }
    Direct { protein, host, alloc: Policy::GuardEnd, ops }
}

pub struct MemSim;

fn policy_for(idx: u64) -> Policy {
    match idx % 5 {
        0 | 1 => Policy::GuardEnd,
        2 | 3 => Policy::GuardStart,
        _ => Policy::ExactPoison,
    }
}

impl Sim for MemSim {
    type Sc = Sc;
    const NAME: &'static str = "mem";

    fn plan(_prop: &str, tier: Tier) -> Vec<Phase> {
        match tier {
            Tier::Quick => vec![
                Phase { name: "direct", count: 60_000, exhaustive: false },
                Phase { name: "stripe", count: 40_000, exhaustive: false },
                Phase { name: "stripe-every-length", count: 2 * 1100, exhaustive: true },
                Phase { name: "scan", count: 24_000, exhaustive: false },
                Phase { name: "gibbs", count: 6_000, exhaustive: false },
                Phase { name: "dense", count: 20_000, exhaustive: false },
            ],
            Tier::Thorough => vec![
                Phase { name: "direct", count: 600_000, exhaustive: false },
                Phase { name: "stripe", count: 400_000, exhaustive: false },
                Phase { name: "stripe-every-length", count: 2 * 4201 * 2, exhaustive: true },
                Phase { name: "scan", count: 300_000, exhaustive: false },
                Phase { name: "gibbs", count: 40_000, exhaustive: false },
                Phase { name: "dense", count: 200_000, exhaustive: false },
            ],
        }
    }

    fn generate(_prop: &str, tier: Tier, phase: &str, idx: u64, r: &mut Prng) -> Sc {
        let pol = policy_for(idx);
        let mut sc = match phase {
            "direct" => Sc::Direct(gen_direct(r, idx)),
            "stripe" => Sc::Stripe(stripe::gen_world(r, idx)),
            "stripe-every-length" => {
                // every length, AVX2 / dispatched striping into a reused buffer, then look-ahead rows
                let guard = if idx % 2 == 0 { Policy::GuardEnd } else { Policy::GuardStart };
                let rest = idx / 2;
                let (l, abc) = if tier == Tier::Quick { (rest as usize, stripe::Abc::Dna) } else { ((rest / 2) as usize, if rest % 2 == 0 { stripe::Abc::Dna } else { stripe::Abc::Protein }) };
                let mut s = stripe::Sc {
                    abc,
                    columns: 32,
                    host: if cpu::real_host_has_avx2() { Host::Avx2 } else { Host::Sse2 },
                    alloc: guard,
                    ops: vec![
                        stripe::Op::StripeFresh(stripe::SeqSpec { len: l, seed: 0xA11 ^ l as u64, kind: 0 }, stripe::Backend::Avx2),
                        stripe::Op::ConfigureWrap(1 + l % 37),
                        stripe::Op::StripeInto(stripe::SeqSpec { len: l, seed: 0xB22 ^ l as u64, kind: 1 }, stripe::Backend::Dispatch),
                        stripe::Op::CountSymbols,
                    ],
                };
                s.alloc = guard;
                return Sc::Stripe(s);
            }
            "scan" => {
                let mut s = scan::ScanSim::generate("C02", tier, "worlds", idx, r);
                // guard mode costs ~6 us per allocation: keep the sequences moderate
                if s.seq.len() > 12_000 {
                    s.seq.truncate(12_000);
                }
                Sc::Scan(s)
            }
            "gibbs" => {
                let mut s = gibbs::GibbsSim::generate("C16", Tier::Quick, "runs", idx, r);
                s.steps = s.steps.min(60);
                Sc::Gibbs(s)
            }
            _ => Sc::Dense(dense::gen_world(r, idx)),
        };
        sc.set_alloc(pol);
        sc
    }

    fn run(_prop: &str, sc: &Sc, keep_trace: bool) -> Outcome {
        let mut o = Outcome::new(keep_trace);
        o.probe(match sc.kind() {
            "scan" => "workload=scan",
            "stripe" => "workload=stripe",
            "gibbs" => "workload=gibbs",
            "dense" => "workload=dense",
            _ => "workload=direct",
        });
        let allocs_before = alloc::ALLOCS.load(std::sync::atomic::Ordering::Relaxed);
        match sc {
            Sc::Scan(s) => {
                let mut inner = scan::ScanSim::run("C02", s, keep_trace);
                std::mem::swap(&mut o, &mut inner);
                o.probe("workload=scan");
            }
            Sc::Stripe(s) => stripe::run_sc(s, &mut o),
            Sc::Gibbs(s) => gibbs::run_sc(s, &mut o),
            Sc::Dense(s) => dense::run_sc(s, &mut o),
            Sc::Direct(d) => {
                o.probe(match d.host {
                    Host::Generic => "host=generic",
                    Host::Sse2 => "host=sse2",
                    Host::Avx2 => "host=avx2",
                });
                o.probe(match d.alloc {
                    Policy::System => "alloc=system",
                    Policy::ExactPoison => "alloc=exact-align+poison",
                    Policy::GuardEnd => "alloc=guard-end",
                    Policy::GuardStart => "alloc=guard-start",
                });
                if d.protein {
                    run_direct_typed::<Protein>(d, &mut o, false);
                    if !o.failed() {
                        run_direct_c16::<Protein>(d, &mut o);
                    }
                } else {
                    run_direct_typed::<Dna>(d, &mut o, true);
                    if !o.failed() {
                        run_direct_dna_u8(d, &mut o);
                    }
                    if !o.failed() {
                        run_direct_c16::<Dna>(d, &mut o);
                    }
                }
            }
        }
        let served = alloc::ALLOCS.load(std::sync::atomic::Ordering::Relaxed) - allocs_before;
        if served > 0 && sc.alloc().is_guard() {
            o.probe("guard-mode-allocations-served");
        }
        // coverage: (workload, policy, host if any, size class)
        let key = match sc {
            Sc::Direct(d) => {
                let longest = d.ops.iter().filter_map(|op| match op { DOp::Encode { len, .. } | DOp::EncodeSub { len, .. } => Some(*len), _ => None }).max().unwrap_or(0);
                let mut kinds: Vec<&str> = d.ops.iter().map(dop_name).collect();
                kinds.sort();
                kinds.dedup();
                format!("direct|{}|{}|{}|mod{}|{}", d.alloc.as_str(), d.host.as_str(), if d.protein { "protein" } else { "dna" }, longest % 32, kinds.len())
            }
            other => format!("{}|{}|{}", other.kind(), other.alloc().as_str(), o.cov.clone().unwrap_or_default()),
        };
        o.cov = Some(key);
        o
    }

    fn shrink(sc: &Sc) -> Vec<Sc> {
        match sc {
            Sc::Scan(s) => scan::ScanSim::shrink(s).into_iter().filter(|x| x.alloc == s.alloc).map(Sc::Scan).collect(),
            Sc::Stripe(s) => stripe::StripeSim::shrink(s).into_iter().filter(|x| x.alloc == s.alloc).map(Sc::Stripe).collect(),
            Sc::Gibbs(s) => gibbs::GibbsSim::shrink(s).into_iter().filter(|x| x.alloc == s.alloc).map(Sc::Gibbs).collect(),
            Sc::Dense(s) => dense::DenseSim::shrink(s).into_iter().filter(|x| x.alloc == s.alloc).map(Sc::Dense).collect(),
            Sc::Direct(d) => {
                let mut out = Vec::new();
                let n = d.ops.len();
                if n > 1 {
                    for (a, b) in [(0, n / 2), (n / 2, n)] {
                        let mut s = d.clone();
                        s.ops.drain(a..b);
                        out.push(Sc::Direct(s));
                    }
                    for i in 0..n {
                        let mut s = d.clone();
                        s.ops.remove(i);
                        out.push(Sc::Direct(s));
                    }
                }
                for (i, op) in d.ops.iter().enumerate() {
                    if let DOp::EncodeSub { be, len, seed, src_off, dst_off } = *op {
                        for nl in [len / 2, len.saturating_sub(32), len.saturating_sub(1)] {
                            if nl < len {
                                let mut s = d.clone();
                                s.ops[i] = DOp::EncodeSub { be, len: nl, seed, src_off, dst_off };
                                out.push(Sc::Direct(s));
                            }
                        }
                    }
                    if let DOp::Encode { be, len, seed, bad, into } = *op {
                        for nl in [len / 2, len.saturating_sub(32), len.saturating_sub(1)] {
                            if nl < len {
                                let mut s = d.clone();
                                s.ops[i] = DOp::Encode { be, len: nl, seed, bad, into };
                                out.push(Sc::Direct(s));
                            }
                        }
                    }
                    if let DOp::Configure { width, seed } = *op {
                        if width > 1 {
                            let mut s = d.clone();
                            s.ops[i] = DOp::Configure { width: width / 2, seed };
                            out.push(Sc::Direct(s));
                        }
                    }
                }
                out
            }
        }
    }

    fn size(sc: &Sc) -> BTreeMap<&'static str, u64> {
        match sc {
            Sc::Scan(s) => scan::ScanSim::size(s),
            Sc::Stripe(s) => stripe::StripeSim::size(s),
            Sc::Gibbs(s) => gibbs::GibbsSim::size(s),
            Sc::Dense(s) => dense::DenseSim::size(s),
            Sc::Direct(d) => {
                let mut m = BTreeMap::new();
                m.insert("ops", d.ops.len() as u64);
                m
            }
        }
    }

    fn needs_child(sc: &Sc) -> bool {
        sc.alloc().is_guard()
    }

    fn death_tags(sc: &Sc) -> String {
        match sc {
            Sc::Direct(d) => {
                // the last operation kind is the one in flight when a minimised history dies
                format!("workload=direct,last-op={}", d.ops.last().map(dop_name).unwrap_or("-"))
            }
            other => format!("workload={}", other.kind()),
        }
    }

    fn rule(_prop: &str) -> String {
        "Cases: (a) the scenarios of the scan, stripe, gibbs and dense simulators and (b) a direct-call generator over the safe public API (encode / encode_into incl. invalid bytes, stripe / stripe_into, configure, f32 score and score_rows_into with row sub-ranges, 8-bit scoring through to_discrete, max / argmax / threshold on f32 and u8 scores, clone; DNA and protein; explicit generic / SSE2 / AVX2 pipelines and the dispatcher under the three simulated host profiles; lengths weighted around multiples of 16 and 32, 32*32 and 32*256), each executed under guard-end, guard-start or exact-align+poison allocation, argument buffers included; plus, exhaustively, AVX2 and dispatched striping of every length. Oracle: no trap (SIGSEGV / SIGBUS), no kernel assertion on pointer alignment, and the functional oracle of the originating simulator still holds (poison turns a read of foreign memory into a wrong value). Distinct = distinct tuples (workload, allocator policy, coverage key of the originating simulator or, for direct calls, host, alphabet, longest length mod 32, number of distinct operation kinds). Non-trivial = the workload ran with allocations served by the simulated heap (every run).".to_string()
    }

    fn required_probes(_prop: &str, _tier: Tier) -> Vec<&'static str> {
        vec!["guard-mode-allocations-served", "avx2-32x32-block-path-with-scalar-tail"]
    }

    fn assumptions(_prop: &str) -> Vec<String> {
        vec![
            "Out-of-bounds accesses that stay inside the same heap block (e.g. into a row's padding) are invisible to guard pages; they are left to the value oracles.".into(),
            "A block whose size is not a multiple of its alignment has < align bytes of slack on the far side; guard-end and guard-start together cover both sides.".into(),
            "Stack and global objects are not guarded by the allocator seam (the AddressSanitizer pass of the thorough tier covers them).".into(),
            "Panics of direct calls that are not kernel assertions about pointers are other properties' business (C01, C05, C07, C08 are not claimed) and are only counted.".into(),
            "Row sub-ranges passed to score_rows_into lie inside the sequence rows (what the scanner does).".into(),
        ]
    }
}
