//! Simulator `stripe`: one long-lived `StripedSequence` buffer driven through a history of
//! stripe_into / stripe / configure / configure_wrap / clone / index / count operations, on a
//! simulated host CPU and allocator, compared cell by cell with a `(Vec<Symbol>, wrap)` reference
//! model after every operation. Serves C04; its scenarios are re-run under guard-page allocators
//! by the `mem` simulator (C06).

use std::collections::BTreeMap;

use serde::{Deserialize, Serialize};

use lightmotif::abc::{Alphabet, Background, Dna, Protein, Symbol};
use lightmotif::dense::DenseMatrix;
use lightmotif::num::{PositiveLength, U1, U16, U2, U32, U4};
use lightmotif::pli::platform::{Avx2, Generic};
use lightmotif::pli::{Pipeline, Stripe};
use lightmotif::pwm::ScoringMatrix;
use lightmotif::seq::{EncodedSequence, StripedSequence, SymbolCount};

use crate::kit::{sut, Outcome, Phase, Prng, Sim, Tier, Violation};
use crate::seam::alloc::{self, Policy};
use crate::seam::cpu::{self, Host};

#[derive(Clone, Copy, Debug, Serialize, Deserialize, PartialEq, Eq)]
pub enum Abc {
    Dna,
    Protein,
}

#[derive(Clone, Copy, Debug, Serialize, Deserialize, PartialEq, Eq)]
pub enum Backend {
    Generic,
    Avx2,
    Dispatch,
}

#[derive(Clone, Copy, Debug, Serialize, Deserialize, PartialEq, Eq)]
pub struct SeqSpec {
    pub len: usize,
    /// Content = symbols drawn from Prng(seed); kind 0 uniform incl. wildcard, 1 no wildcard,
    /// 2 all the same symbol, 3 counting pattern (position mod K-1).
    pub seed: u64,
    pub kind: u8,
}

#[derive(Clone, Copy, Debug, Serialize, Deserialize, PartialEq, Eq)]
pub enum Op {
    StripeInto(SeqSpec, Backend),
    StripeFresh(SeqSpec, Backend),
    ToStriped(SeqSpec),
    ConfigureWrap(usize),
    ConfigureMotif(usize),
    CloneContinue,
    Index(usize),
    CountSymbol(usize),
    CountSymbols,
    LenWrap,
}

#[derive(Clone, Debug, Serialize, Deserialize, PartialEq)]
pub struct Sc {
    pub abc: Abc,
    pub columns: usize,
    pub host: Host,
    pub alloc: Policy,
    pub ops: Vec<Op>,
}

pub fn symbols_of(spec: &SeqSpec, k: usize) -> Vec<u8> {
    let mut r = Prng::new(spec.seed);
    let mut v = Vec::with_capacity(spec.len);
    let fixed = r.usize_below(k) as u8;
    for i in 0..spec.len {
        v.push(match spec.kind {
            0 => r.usize_below(k) as u8,
            1 => r.usize_below(k - 1) as u8,
            2 => fixed,
            _ => (i % (k - 1)) as u8,
        });
    }
    v
}

/// Which striping backends exist for a column count.
pub trait Backends<A: Alphabet, C: PositiveLength> {
    fn has(b: Backend) -> bool;
    fn stripe_into(b: Backend, seq: &[A::Symbol], dst: &mut StripedSequence<A, C>);
    fn stripe(b: Backend, seq: &[A::Symbol]) -> StripedSequence<A, C>;
    fn to_striped(seq: &EncodedSequence<A>) -> StripedSequence<A, C>;
}

pub struct GenericOnly;
impl<A: Alphabet, C: PositiveLength> Backends<A, C> for GenericOnly {
    fn has(b: Backend) -> bool {
        b == Backend::Generic
    }
    fn stripe_into(_b: Backend, seq: &[A::Symbol], dst: &mut StripedSequence<A, C>) {
        Pipeline::<A, Generic>::generic().stripe_into(seq, dst)
    }
    fn stripe(_b: Backend, seq: &[A::Symbol]) -> StripedSequence<A, C> {
        Pipeline::<A, Generic>::generic().stripe(seq)
    }
    fn to_striped(seq: &EncodedSequence<A>) -> StripedSequence<A, C> {
        let s: &[A::Symbol] = seq.as_ref();
        Pipeline::<A, Generic>::generic().stripe(s)
    }
}

pub struct AllBackends;
impl<A: Alphabet> Backends<A, U32> for AllBackends {
    fn has(b: Backend) -> bool {
        match b {
            Backend::Avx2 => cpu::real_host_has_avx2(),
            _ => true,
        }
    }
    fn stripe_into(b: Backend, seq: &[A::Symbol], dst: &mut StripedSequence<A, U32>) {
        match b {
            Backend::Generic => Pipeline::<A, Generic>::generic().stripe_into(seq, dst),
            Backend::Avx2 => Pipeline::<A, Avx2>::avx2().expect("HARNESS: avx2").stripe_into(seq, dst),
            Backend::Dispatch => Pipeline::<A, _>::dispatch().stripe_into(seq, dst),
        }
    }
    fn stripe(b: Backend, seq: &[A::Symbol]) -> StripedSequence<A, U32> {
        match b {
            Backend::Generic => Pipeline::<A, Generic>::generic().stripe(seq),
            Backend::Avx2 => Pipeline::<A, Avx2>::avx2().expect("HARNESS: avx2").stripe(seq),
            Backend::Dispatch => Pipeline::<A, _>::dispatch().stripe(seq),
        }
    }
    fn to_striped(seq: &EncodedSequence<A>) -> StripedSequence<A, U32> {
        seq.to_striped()
    }
}

fn op_name(op: &Op) -> &'static str {
    match op {
        Op::StripeInto(_, Backend::Generic) => "stripe_into(generic)",
        Op::StripeInto(_, Backend::Avx2) => "stripe_into(avx2)",
        Op::StripeInto(_, Backend::Dispatch) => "stripe_into(dispatch)",
        Op::StripeFresh(_, Backend::Generic) => "stripe(generic)",
        Op::StripeFresh(_, Backend::Avx2) => "stripe(avx2)",
        Op::StripeFresh(_, Backend::Dispatch) => "stripe(dispatch)",
        Op::ToStriped(_) => "to_striped",
        Op::ConfigureWrap(_) => "configure_wrap",
        Op::ConfigureMotif(_) => "configure",
        Op::CloneContinue => "clone",
        Op::Index(_) => "index",
        Op::CountSymbol(_) => "count_symbol",
        Op::CountSymbols => "count_symbols",
        Op::LenWrap => "len/wrap",
    }
}

struct Model {
    seq: Vec<u8>,
    /// Look-ahead rows the last configure call asked for (0 after striping).
    wrap: usize,
    /// No configure call since the last striping.
    fresh: bool,
}

/// Compare the whole matrix with the model. Returns a description of the first difference.
fn compare<A: Alphabet, C: PositiveLength>(s: &StripedSequence<A, C>, m: &Model) -> Option<(String, String)> {
    let c_n = C::USIZE;
    let k = A::K::USIZE;
    let wild = (k - 1) as u8;
    let l = m.seq.len();
    let r = (l + c_n - 1) / c_n;
    if s.len() != l {
        return Some(("len".into(), format!("len() = {} but the sequence has {} symbols", s.len(), l)));
    }
    // look-ahead rows: none after striping (fresh and reused buffers give identical matrices); after
    // configure_wrap(m) at least m of them (how many more an implementation keeps is its business),
    // every one of them holding the shifted sequence row
    let wrap = s.wrap();
    if m.fresh && wrap != 0 {
        return Some(("wrap".into(), format!("wrap() = {} right after striping (a fresh buffer has none)", wrap)));
    }
    if wrap < m.wrap {
        return Some(("wrap".into(), format!("wrap() = {} but {} look-ahead rows were requested", wrap, m.wrap)));
    }
    let mx = s.matrix();
    if mx.rows() != r + wrap {
        return Some(("rows".into(), format!("matrix has {} rows, expected {} sequence rows + {} look-ahead rows", mx.rows(), r, wrap)));
    }
    for row in 0..r + wrap {
        let data = &mx[row];
        for col in 0..c_n {
            let want = if r == 0 {
                wild
            } else {
                let idx = col * r + row;
                let real_col = col + row / r;
                if real_col < c_n && idx < l {
                    m.seq[idx]
                } else {
                    wild
                }
            };
            let got = data[col].as_index() as u8;
            if got != want {
                let part = if row < r { "sequence-row" } else { "look-ahead-row" };
                return Some((
                    part.into(),
                    format!("cell (row {}, column {}) holds symbol #{} but the model says #{} (L={}, C={}, R={}, wrap={})", row, col, got, want, l, c_n, r, wrap),
                ));
            }
        }
    }
    None
}

use lightmotif::num::Unsigned;

fn run_typed<A: Alphabet, C: PositiveLength, B: Backends<A, C>>(sc: &Sc, o: &mut Outcome) {
    let k = A::K::USIZE;
    let tags = |field: &str, op: &Op| format!("op={},part={}", op_name(op), field);
    let to_syms = |v: &[u8]| -> Vec<A::Symbol> { v.iter().map(|&i| A::symbols()[i as usize]).collect() };
    alloc::begin_run(sc.alloc);
    let mut model = Model { seq: Vec::new(), wrap: 0, fresh: true };
    let mut buf: StripedSequence<A, C> = match sut(|| StripedSequence::<A, C>::default()) {
        Ok(b) => b,
        Err(p) => {
            alloc::end_run();
            o.violate(Violation::new(p.class(), "op=default", p.msg));
            return;
        }
    };
    let mut prev_rows = 0usize;
    let mut last_op: Option<&'static str> = None;
    let mut bigrams: Vec<String> = Vec::new();
    for (i, op) in sc.ops.iter().enumerate() {
        o.steps += 1;
        let name = op_name(op);
        if let Some(p) = last_op {
            bigrams.push(format!("{}>{}", p, name));
        }
        last_op = Some(name);
        let res: Result<Option<(String, String)>, crate::kit::Panicked> = match *op {
            Op::StripeInto(spec, b) | Op::StripeFresh(spec, b) => {
                if !B::has(b) {
                    continue;
                }
                let content = symbols_of(&spec, k);
                let fresh = matches!(op, Op::StripeFresh(..));
                // the argument buffer is an allocation "owned by its arguments": build it in scope
                let r = sut(|| {
                    let syms = to_syms(&content);
                    cpu::with_host(sc.host, || {
                        if fresh {
                            buf = B::stripe(b, &syms);
                        } else {
                            B::stripe_into(b, &syms, &mut buf);
                        }
                    })
                });
                if b == Backend::Avx2 || (b == Backend::Dispatch && sc.host == Host::Avx2) {
                    let rows = (content.len() + 31) / 32;
                    if rows >= 32 && rows % 32 != 0 {
                        o.probe("avx2-32x32-block-path-with-scalar-tail");
                    }
                }
                if !fresh && prev_rows > (content.len() + C::USIZE - 1) / C::USIZE {
                    o.probe("stripe_into-buffer-that-had-more-rows");
                }
                model.seq = content;
                model.wrap = 0;
                model.fresh = true;
                r.map(|_| None)
            }
            Op::ToStriped(spec) => {
                let content = symbols_of(&spec, k);
                let r = sut(|| {
                    let enc = EncodedSequence::<A>::new(to_syms(&content));
                    cpu::with_host(sc.host, || {
                        buf = B::to_striped(&enc);
                    })
                });
                model.seq = content;
                model.wrap = 0;
                model.fresh = true;
                r.map(|_| None)
            }
            Op::ConfigureWrap(m) => {
                let before = buf.wrap();
                let r = sut(|| buf.configure_wrap(m));
                if m <= before {
                    o.probe("wrap-request-not-above-current(idempotence)");
                }
                model.wrap = m;
                model.fresh = false;
                let rows = (model.seq.len() + C::USIZE - 1) / C::USIZE;
                if buf.wrap() > rows && rows > 0 {
                    o.probe("wrap-larger-than-row-count");
                }
                r.map(|_| None)
            }
            Op::ConfigureMotif(w) => {
                let r = sut(|| {
                    let pssm = ScoringMatrix::<A>::new(Background::uniform(), DenseMatrix::new(w));
                    buf.configure(&pssm)
                });
                if w > 0 {
                    model.wrap = w - 1;
                    model.fresh = false;
                }
                r.map(|_| None)
            }
            Op::CloneContinue => sut(|| {
                let c = buf.clone();
                buf = c;
            })
            .map(|_| None),
            Op::Index(at) => {
                if model.seq.is_empty() {
                    continue;
                }
                let at = at % model.seq.len();
                sut(|| buf[at].as_index()).map(|got| {
                    if got as u8 != model.seq[at] {
                        Some(("index".to_string(), format!("striped[{}] is symbol #{} but the sequence holds #{}", at, got, model.seq[at])))
                    } else {
                        None
                    }
                })
            }
            Op::CountSymbol(si) => {
                let si = si % k;
                let want = model.seq.iter().filter(|&&x| x as usize == si).count();
                sut(|| SymbolCount::<A>::count_symbol(&buf, A::symbols()[si])).map(|got| {
                    if got != want {
                        Some(("count_symbol".to_string(), format!("count_symbol(#{}) = {} but the sequence holds {}", si, got, want)))
                    } else {
                        None
                    }
                })
            }
            Op::CountSymbols => {
                let mut want = vec![0usize; k];
                for &x in &model.seq {
                    want[x as usize] += 1;
                }
                sut(|| SymbolCount::<A>::count_symbols(&buf).to_vec()).map(|got| {
                    if got != want {
                        Some(("count_symbols".to_string(), format!("count_symbols() = {:?} but the sequence holds {:?}", got, want)))
                    } else {
                        None
                    }
                })
            }
            Op::LenWrap => Ok(None),
        };
        match res {
            Err(p) => {
                alloc::end_run();
                o.violate(Violation::new(p.class(), tags("panic", op), format!("op #{} {:?}: {}", i, op, p.msg)));
                return;
            }
            Ok(Some((field, detail))) => {
                alloc::end_run();
                o.violate(Violation::new("wrong-answer", tags(&field, op), format!("after op #{} {:?}: {}", i, op, detail)));
                return;
            }
            Ok(None) => {}
        }
        // whole-matrix comparison after every operation
        if let Some((field, detail)) = compare(&buf, &model) {
            alloc::end_run();
            o.violate(Violation::new("state-mismatch", tags(&field, op), format!("after op #{} {:?}: {}", i, op, detail)));
            return;
        }
        prev_rows = buf.matrix().rows();
        crate::ev!(o.trace, "op#{} {:?} -> L={} rows={} wrap={}", i, op, model.seq.len(), prev_rows, buf.wrap());
    }
    if let Err(p) = sut(move || drop(buf)) {
        o.violate(Violation::new(p.class(), "op=drop", p.msg));
    }
    alloc::end_run();
    // coverage: (alphabet, C, host, L mod 32 of the longest striped sequence, L band, op bigram)
    let longest = sc
        .ops
        .iter()
        .filter_map(|op| match op {
            Op::StripeInto(s, _) | Op::StripeFresh(s, _) | Op::ToStriped(s) => Some(s.len),
            _ => None,
        })
        .max()
        .unwrap_or(0);
    let band = if longest == 0 {
        "0"
    } else if longest < 32 {
        "<32"
    } else if longest < 992 {
        "<992"
    } else if longest <= 1056 {
        "992..1056"
    } else if longest < 8192 - 33 {
        "<8159"
    } else {
        ">=8159"
    };
    bigrams.sort();
    bigrams.dedup();
    if sc.ops.len() >= 2 && longest > 0 {
        let bg = bigrams.first().cloned().unwrap_or_default();
        o.cov = Some(format!("{:?}|C{}|{}|mod{}|{}|{}", sc.abc, sc.columns, sc.host.as_str(), longest % 32, band, bg));
    }
}

pub struct StripeSim;

fn gen_len(r: &mut Prng) -> usize {
    match r.below(12) {
        0 => 0,
        1 => r.range(1, 31),
        2 => 32 * r.range(1, 40),
        3 => r.range(992, 1056),
        4 => 32 * 256 - 33 + r.range(0, 66),
        5 => 1024 + 32 * r.range(0, 8) + r.range(0, 31),
        6 => r.range(2000, 4200),
        7 => 1024 * r.range(1, 8) + *r.pick(&[0usize, 1, 31, 32, 33]) - *r.pick(&[0usize, 1]),
        8 => 32 * *r.pick(&[63usize, 64, 65, 127, 128, 129, 255, 256, 257]) + *r.pick(&[0usize, 1, 31]),
        _ => r.heavy(1, 1500),
    }
}

fn gen_spec(r: &mut Prng) -> SeqSpec {
    SeqSpec {
        len: gen_len(r),
        seed: r.next_u64(),
        kind: *r.pick(&[0u8, 0, 0, 1, 2, 3]),
    }
}

/// One world in 800 works beyond 2^16 rows (small column counts, long runs of one symbol) or beyond a 1 MiB
/// matrix (32 columns, more than 2^20 symbols): few operations, every check is O(length).
fn gen_huge_world(r: &mut Prng, idx: u64) -> Sc {
    let abc = if idx % 3 == 2 { Abc::Protein } else { Abc::Dna };
    let wide = r.chance(1, 2);
    let columns = if wide { 32 } else { *r.pick(&[1usize, 2, 4]) };
    let len = if wide {
        32 * (32768 + *r.pick(&[0usize, 1, 33, 1000])) + *r.pick(&[0usize, 1, 31]) - *r.pick(&[0usize, 1, 32])
    } else {
        columns * (65536 + *r.pick(&[0usize, 1, 2, 500])) + *r.pick(&[0usize, 1]) - *r.pick(&[0usize, 1])
    };
    let spec = SeqSpec { len, seed: r.next_u64(), kind: *r.pick(&[0u8, 2, 2, 3]) };
    let b = if columns == 32 { *r.pick(&[Backend::Avx2, Backend::Dispatch, Backend::Generic]) } else { Backend::Generic };
    let mut ops = vec![Op::StripeInto(spec, b), Op::CountSymbols, Op::CountSymbol(r.usize_below(21))];
    if r.chance(1, 2) {
        ops.push(Op::ConfigureWrap(r.range(1, 40)));
        ops.push(Op::CountSymbol(r.usize_below(21)));
    }
    ops.push(Op::Index(r.next_u64() as usize));
    Sc { abc, columns, host: if cpu::real_host_has_avx2() { Host::Avx2 } else { Host::Sse2 }, alloc: Policy::System, ops }
}

pub fn gen_world(r: &mut Prng, idx: u64) -> Sc {
    if idx % 800 == 799 {
        return gen_huge_world(r, idx);
    }
    let abc = if idx % 3 == 2 { Abc::Protein } else { Abc::Dna };
    let columns = match (idx / 3) % 8 {
        0 => 1,
        1 => 2,
        2 => 4,
        3 => 16,
        _ => 32,
    };
    let host = match (idx / 24) % 4 {
        0 | 1 => Host::Avx2,
        2 => Host::Sse2,
        _ => Host::Generic,
    };
    let host = if host == Host::Avx2 && !cpu::real_host_has_avx2() { Host::Sse2 } else { host };
    let alloc = if r.chance(1, 2) { Policy::ExactPoison } else { Policy::System };
    let n = r.range(2, 12);
    let mut ops = Vec::with_capacity(n);
    ops.push(Op::StripeInto(gen_spec(r), if columns == 32 { *r.pick(&[Backend::Generic, Backend::Avx2, Backend::Dispatch]) } else { Backend::Generic }));
    for _ in 1..n {
        let b = if columns == 32 { *r.pick(&[Backend::Generic, Backend::Avx2, Backend::Dispatch]) } else { Backend::Generic };
        ops.push(match r.below(14) {
            0 | 1 | 2 => Op::StripeInto(gen_spec(r), b),
            3 => Op::StripeFresh(gen_spec(r), b),
            4 => Op::ToStriped(gen_spec(r)),
            5 | 6 | 7 => Op::ConfigureWrap(match r.below(5) {
                0 => 0,
                1 => r.range(1, 8),
                2 => r.range(20, 45),
                3 => r.range(1, 200),
                _ => r.range(1, 33),
            }),
            8 => Op::ConfigureMotif(r.range(0, 50)),
            9 => Op::CloneContinue,
            10 => Op::Index(r.next_u64() as usize),
            11 => Op::CountSymbol(r.usize_below(21)),
            12 => Op::CountSymbols,
            _ => Op::LenWrap,
        });
    }
    Sc { abc, columns, host, alloc, ops }
}

pub fn run_sc(sc: &Sc, o: &mut Outcome) {
    o.probe(match sc.host {
        Host::Generic => "host=generic",
        Host::Sse2 => "host=sse2",
        Host::Avx2 => "host=avx2",
    });
    o.probe(match sc.alloc {
        Policy::System => "alloc=system",
        Policy::ExactPoison => "alloc=exact-align+poison",
        Policy::GuardEnd => "alloc=guard-end",
        Policy::GuardStart => "alloc=guard-start",
    });
    match (sc.abc, sc.columns) {
        (Abc::Dna, 1) => run_typed::<Dna, U1, GenericOnly>(sc, o),
        (Abc::Dna, 2) => run_typed::<Dna, U2, GenericOnly>(sc, o),
        (Abc::Dna, 4) => run_typed::<Dna, U4, GenericOnly>(sc, o),
        (Abc::Dna, 16) => run_typed::<Dna, U16, GenericOnly>(sc, o),
        (Abc::Dna, 32) => run_typed::<Dna, U32, AllBackends>(sc, o),
        (Abc::Protein, 1) => run_typed::<Protein, U1, GenericOnly>(sc, o),
        (Abc::Protein, 2) => run_typed::<Protein, U2, GenericOnly>(sc, o),
        (Abc::Protein, 4) => run_typed::<Protein, U4, GenericOnly>(sc, o),
        (Abc::Protein, 16) => run_typed::<Protein, U16, GenericOnly>(sc, o),
        (Abc::Protein, 32) => run_typed::<Protein, U32, AllBackends>(sc, o),
        _ => {
            eprintln!("HARNESS: unsupported column count {}", sc.columns);
            std::process::exit(2);
        }
    }
}

const EVERY_L_MAX: u64 = 4200;

impl Sim for StripeSim {
    type Sc = Sc;
    const NAME: &'static str = "stripe";

    fn plan(_prop: &str, tier: Tier) -> Vec<Phase> {
        match tier {
            Tier::Quick => vec![
                Phase { name: "histories", count: 1_000_000, exhaustive: false },
                Phase { name: "every-length", count: 3 * 1100, exhaustive: true },
            ],
            Tier::Thorough => vec![
                Phase { name: "histories", count: 20_000_000, exhaustive: false },
                Phase { name: "every-length", count: 3 * (EVERY_L_MAX + 1) * 2, exhaustive: true },
            ],
        }
    }

    fn generate(_prop: &str, tier: Tier, phase: &str, idx: u64, r: &mut Prng) -> Sc {
        match phase {
            "every-length" => {
                // every L for each backend (x both alphabets in the thorough tier), C = 32
                let b = [Backend::Generic, Backend::Avx2, Backend::Dispatch][(idx % 3) as usize];
                let rest = idx / 3;
                let (l, abc) = if tier == Tier::Quick {
                    (rest as usize, Abc::Dna)
                } else {
                    ((rest / 2) as usize, if rest % 2 == 0 { Abc::Dna } else { Abc::Protein })
                };
                let spec = SeqSpec { len: l, seed: 0x5EED ^ l as u64, kind: 0 };
                Sc {
                    abc,
                    columns: 32,
                    host: if cpu::real_host_has_avx2() { Host::Avx2 } else { Host::Sse2 },
                    alloc: if l % 2 == 0 { Policy::ExactPoison } else { Policy::System },
                    ops: vec![
                        Op::StripeInto(SeqSpec { len: (l * 7 + 13) % 300, seed: 1, kind: 0 }, Backend::Generic),
                        Op::ConfigureWrap(5),
                        Op::StripeInto(spec, b),
                        Op::ConfigureWrap(1 + l % 40),
                        Op::CountSymbols,
                        Op::ConfigureWrap(3),
                        Op::Index(l / 2),
                    ],
                }
            }
            _ => gen_world(r, idx),
        }
    }

    fn run(_prop: &str, sc: &Sc, keep_trace: bool) -> Outcome {
        let mut o = Outcome::new(keep_trace);
        run_sc(sc, &mut o);
        o
    }

    fn shrink(sc: &Sc) -> Vec<Sc> {
        let mut out = Vec::new();
        if sc.alloc != Policy::System && !sc.alloc.is_guard() {
            let mut s = sc.clone();
            s.alloc = Policy::System;
            out.push(s);
        }
        let n = sc.ops.len();
        if n > 1 {
            for (a, b) in [(0, n / 2), (n / 2, n)] {
                let mut s = sc.clone();
                s.ops.drain(a..b);
                out.push(s);
            }
            for i in 0..n {
                let mut s = sc.clone();
                s.ops.remove(i);
                out.push(s);
            }
        }
        for (i, op) in sc.ops.iter().enumerate() {
            match *op {
                Op::StripeInto(spec, b) | Op::StripeFresh(spec, b) => {
                    for nl in [spec.len / 2, spec.len.saturating_sub(32), spec.len.saturating_sub(1)] {
                        if nl < spec.len {
                            let mut s = sc.clone();
                            let ns = SeqSpec { len: nl, ..spec };
                            s.ops[i] = if matches!(op, Op::StripeInto(..)) { Op::StripeInto(ns, b) } else { Op::StripeFresh(ns, b) };
                            out.push(s);
                        }
                    }
                    if spec.kind != 3 {
                        let mut s = sc.clone();
                        let ns = SeqSpec { kind: 3, ..spec };
                        s.ops[i] = if matches!(op, Op::StripeInto(..)) { Op::StripeInto(ns, b) } else { Op::StripeFresh(ns, b) };
                        out.push(s);
                    }
                    if b != Backend::Generic {
                        let mut s = sc.clone();
                        s.ops[i] = if matches!(op, Op::StripeInto(..)) { Op::StripeInto(spec, Backend::Generic) } else { Op::StripeFresh(spec, Backend::Generic) };
                        out.push(s);
                    }
                }
                Op::ToStriped(spec) => {
                    for nl in [spec.len / 2, spec.len.saturating_sub(1)] {
                        if nl < spec.len {
                            let mut s = sc.clone();
                            s.ops[i] = Op::ToStriped(SeqSpec { len: nl, ..spec });
                            out.push(s);
                        }
                    }
                }
                Op::ConfigureWrap(m) if m > 0 => {
                    for nm in [m / 2, m - 1] {
                        let mut s = sc.clone();
                        s.ops[i] = Op::ConfigureWrap(nm);
                        out.push(s);
                    }
                }
                Op::ConfigureMotif(m) if m > 0 => {
                    let mut s = sc.clone();
                    s.ops[i] = Op::ConfigureWrap(m - 1);
                    out.push(s);
                }
                _ => {}
            }
        }
        if sc.host != Host::Generic {
            let mut s = sc.clone();
            s.host = Host::Generic;
            out.push(s);
        }
        out
    }

    fn size(sc: &Sc) -> BTreeMap<&'static str, u64> {
        let mut m = BTreeMap::new();
        m.insert("ops", sc.ops.len() as u64);
        let longest = sc
            .ops
            .iter()
            .filter_map(|op| match op {
                Op::StripeInto(s, _) | Op::StripeFresh(s, _) | Op::ToStriped(s) => Some(s.len as u64),
                _ => None,
            })
            .max()
            .unwrap_or(0);
        m.insert("longest_sequence", longest);
        m
    }

    fn needs_child(sc: &Sc) -> bool {
        sc.alloc.is_guard()
    }

    fn rule(_prop: &str) -> String {
        "Cases: histories of 2..12 operations on one long-lived StripedSequence<A, C> (A in {DNA, protein}, C in {1,2,4,16,32}): stripe_into / stripe with the generic, AVX2 or dispatched pipeline (lengths weighted to 0, every residue mod 32, 992..1056, 32*256 +- 33, up to 4200), to_striped, configure_wrap with growing / shrinking / repeated / larger-than-R values, configure(motif), clone-and-continue, Index, count_symbol(s), on a simulated host CPU and allocator (system or exact-align+poison: fresh memory 0xA5, freed memory 0x5A, realloc always moves); plus, exhaustively, every length 0..4200 for each backend. After every operation the whole matrix is compared with the (Vec<Symbol>, wrap) reference model. Distinct = distinct tuples (alphabet, C, host, longest L mod 32, L band, first op bigram). Non-trivial = at least two operations and a non-empty sequence.".to_string()
    }

    fn required_probes(_prop: &str, _tier: Tier) -> Vec<&'static str> {
        vec![
            "avx2-32x32-block-path-with-scalar-tail",
            "wrap-larger-than-row-count",
            "wrap-request-not-above-current(idempotence)",
            "stripe_into-buffer-that-had-more-rows",
        ]
    }

    fn assumptions(_prop: &str) -> Vec<String> {
        vec![
            "Reference model: symbol i at (row i mod R, column i div R), R = ceil(L/C); look-ahead cell (R+k, c) holds the symbol of linear index c*R+R+k when that index is < L and its real column c + (R+k) div R is < C, else the wildcard; wrap() = 0 right after striping, >= m after configure_wrap(m), and the matrix has exactly R + wrap() rows.".into(),
            "AVX2 striping is exercised only if the machine has AVX2 (it does here).".into(),
        ]
    }
}
