//! Simulator `gibbs`: the Gibbs sampler (`lightmotif::sampler::Sampler`) driven by the RNG seam
//! (recorded stream with sparse forced extreme draws) on a simulated host CPU and allocator.
//! After every step the incrementally maintained state is compared with a recomputation from the
//! reported alignment; the whole run is executed twice and the traces must be identical. Serves C16.

use std::collections::BTreeMap;

use serde::{Deserialize, Serialize};

use lightmotif::abc::{Alphabet, Dna, Protein};
use lightmotif::num::Unsigned;
use lightmotif::pli::dispatch::Dispatch;
use lightmotif::pli::{Pipeline, Score};
use lightmotif::sampler::{SamplerBuilder, SamplerData, SamplerMode};
use lightmotif::seq::{EncodedSequence, StripedSequence};

use crate::kit::{sut, Outcome, Phase, Prng, Sim, Tier, Violation};
use crate::seam::alloc::{self, Policy};
use crate::seam::cpu::{self, Host};
use crate::seam::rng::{Forced, RngPlan, SimRng};

#[derive(Clone, Copy, Debug, Serialize, Deserialize, PartialEq, Eq)]
pub enum Abc {
    Dna,
    Protein,
}

#[derive(Clone, Debug, Serialize, Deserialize, PartialEq)]
pub enum Mode {
    Oops,
    Zoops {
        seeds: usize,
        inertia: Option<usize>,
        patience: Option<usize>,
    },
}

#[derive(Clone, Debug, Serialize, Deserialize, PartialEq)]
pub struct Sc {
    pub abc: Abc,
    pub seqs: Vec<String>,
    pub width: usize,
    pub mode: Mode,
    pub host: Host,
    pub alloc: Policy,
    pub rng: RngPlan,
    pub steps: usize,
    /// Look-ahead rows configured = width + extra_wrap.
    pub extra_wrap: usize,
    /// Build the dataset with `StripedSequence::sample` (random symbols, also in the padding cells)
    /// instead of encoding `seqs`; `seqs` then only gives the lengths. The harness reads the symbols back.
    #[serde(default)]
    pub sampled: Option<u64>,
}

fn fnv_usizes(xs: &[usize]) -> u64 {
    let mut h = 0xcbf2_9ce4_8422_2325u64;
    for &x in xs {
        h ^= x as u64;
        h = h.wrapping_mul(0x0000_0100_0000_01B3);
    }
    h
}

struct StepLog {
    lines: Vec<String>,
    violation: Option<Violation>,
    steps_done: usize,
    ended: bool,
    kept: u64,
    rejected: u64,
    holdout_inactive: u64,
    last_start_chosen: u64,
    first_start_chosen: u64,
    draws: u64,
    forced: [u64; 3],
    rng_digest: u64,
}

fn window_counts<A: Alphabet>(seqs: &[Vec<u8>], members: &[(usize, usize)], width: usize) -> Vec<Vec<u32>> {
    let k = A::K::USIZE;
    let mut m = vec![vec![0u32; k]; width];
    for &(i, start) in members {
        for j in 0..width {
            m[j][seqs[i][start + j] as usize] += 1;
        }
    }
    m
}

fn background_counts<A: Alphabet>(seqs: &[Vec<u8>], members: &[(usize, usize)], width: usize) -> Vec<usize> {
    let k = A::K::USIZE;
    let mut c = vec![0usize; k];
    for &(i, start) in members {
        for (p, &s) in seqs[i].iter().enumerate() {
            if p < start || p >= start + width {
                c[s as usize] += 1;
            }
        }
    }
    c
}

fn run_once<A: Alphabet>(sc: &Sc, tags: &str) -> StepLog
where
    Pipeline<A, Dispatch>: Score<f32, A, lightmotif::num::U32>,
{
    let letters = A::as_str().as_bytes();
    let idx_of = |c: u8| letters.iter().position(|&x| x == c).expect("HARNESS: letter outside alphabet") as u8;
    let mut seqs: Vec<Vec<u8>> = sc.seqs.iter().map(|s| s.bytes().map(idx_of).collect()).collect();
    let mut log = StepLog {
        lines: Vec::new(),
        violation: None,
        steps_done: 0,
        ended: false,
        kept: 0,
        rejected: 0,
        holdout_inactive: 0,
        last_start_chosen: 0,
        first_start_chosen: 0,
        draws: 0,
        forced: [0; 3],
        rng_digest: 0,
    };
    let width = sc.width;
    let fail = |log: &mut StepLog, class: String, t: &str, detail: String| {
        if log.violation.is_none() {
            log.violation = Some(Violation::new(class, t.to_string(), detail));
        }
    };
    alloc::begin_run(sc.alloc);
    let mut rng = SimRng::new(&sc.rng);
    // dataset
    let striped = sut(|| {
        cpu::with_host(sc.host, || {
            if let Some(seed) = sc.sampled {
                // public constructor that fills whole rows with random symbols
                let mut srng = SimRng::new(&RngPlan { seed, forced: Vec::new() });
                return sc
                    .seqs
                    .iter()
                    .map(|s| {
                        let mut st: StripedSequence<A> = StripedSequence::sample(&mut srng, lightmotif::abc::Background::<A>::uniform(), s.len());
                        st.configure_wrap(width + sc.extra_wrap);
                        st
                    })
                    .collect::<Vec<_>>();
            }
            sc.seqs
                .iter()
                .map(|s| {
                    let enc = EncodedSequence::<A>::encode(s.as_bytes()).expect("HARNESS: sequence must encode");
                    let mut st: StripedSequence<A> = enc.to_striped();
                    st.configure_wrap(width + sc.extra_wrap);
                    st
                })
                .collect::<Vec<_>>()
        })
    });
    let striped = match striped {
        Ok(s) => s,
        Err(p) => {
            fail(&mut log, p.class(), tags, format!("building the dataset: {}", p.msg));
            alloc::end_run();
            return log;
        }
    };
    if sc.sampled.is_some() {
        // the model of a sampled dataset is what indexing the striped sequences returns
        use lightmotif::abc::Symbol;
        for (i, st) in striped.iter().enumerate() {
            seqs[i] = (0..st.len()).map(|p| st[p].as_index() as u8).collect();
        }
    }
    let data = match sut(|| SamplerData::<A, _>::new(&striped)) {
        Ok(d) => d,
        Err(p) => {
            fail(&mut log, p.class(), tags, format!("SamplerData::new: {}", p.msg));
            alloc::end_run();
            return log;
        }
    };
    {
        let sampler = sut(|| {
            cpu::with_host(sc.host, || {
                if sc.mode == Mode::Oops && sc.rng.seed % 3 == 0 {
                    // the plain constructor (one-occurrence mode with default parameters)
                    return lightmotif::sampler::Sampler::new(&data, width, &mut rng);
                }
                let mut b = SamplerBuilder::new(&data);
                b.width(width);
                match &sc.mode {
                    Mode::Oops => {
                        b.mode(SamplerMode::Oops);
                    }
                    Mode::Zoops { seeds, inertia, patience } => {
                        b.mode(SamplerMode::Zoops);
                        b.seeds(*seeds);
                        if let Some(i) = inertia {
                            b.inertia(*i);
                        }
                        if let Some(p) = patience {
                            b.patience(*p);
                        }
                    }
                }
                b.sample(&mut rng)
            })
        });
        let mut sampler = match sampler {
            Ok(s) => s,
            Err(p) => {
                fail(&mut log, p.class(), tags, format!("creating the sampler: {}", p.msg));
                alloc::end_run();
                return log;
            }
        };
        // check the initial state as well
        let mut pre_active: Vec<usize> = sampler.active_sequences();
        let mut pre_starts: Vec<usize> = sampler.active_starts();
        for step in 0..=sc.steps {
            // invariants of the current state, recomputed from the reported alignment
            let members: Vec<(usize, usize)> = pre_active.iter().copied().zip(pre_starts.iter().copied()).collect();
            for &(i, st) in &members {
                if i >= seqs.len() || st + width > seqs[i].len() {
                    fail(&mut log, "start-out-of-range".into(), tags, format!("before step {}: sequence {} start {} + width {} > length {}", step, i, st, width, seqs.get(i).map(|s| s.len()).unwrap_or(0)));
                }
            }
            if log.violation.is_some() {
                break;
            }
            let want_counts = window_counts::<A>(&seqs, &members, width);
            let got = sut(|| {
                let cm = sampler.count_matrix();
                let m: Vec<Vec<u32>> = cm.matrix().iter().map(|r| r.to_vec()).collect();
                (m, cm.sequence_count())
            });
            match got {
                Err(p) => fail(&mut log, p.class(), tags, format!("count_matrix() before step {}: {}", step, p.msg)),
                Ok((m, n)) => {
                    if m != want_counts {
                        let row = m.iter().zip(want_counts.iter()).position(|(a, b)| a != b).unwrap_or(0);
                        fail(&mut log, "state-drift(count-matrix)".into(), tags, format!("before step {}: count matrix row {} is {:?} but the alignment gives {:?}", step, row, m.get(row), want_counts.get(row)));
                    }
                    let _ = n;
                }
            }
            let want_bg = background_counts::<A>(&seqs, &members, width);
            let total: usize = want_bg.iter().sum();
            if total > 0 && log.violation.is_none() {
                match sut(|| sampler.background().frequencies().to_vec()) {
                    Err(p) => fail(&mut log, p.class(), tags, format!("background() before step {}: {}", step, p.msg)),
                    Ok(f) => {
                        let want: Vec<f32> = want_bg.iter().map(|&c| c as f32 / total as f32).collect();
                        // "normalised symbol counts": compared within float rounding of the division
                        let same = f.len() == want.len() && f.iter().zip(want.iter()).all(|(a, b)| (*a as f64 - *b as f64).abs() <= 1e-6);
                        if !same {
                            fail(&mut log, "state-drift(background)".into(), tags, format!("before step {}: background {:?} but the sequences outside their windows give {:?}", step, f, want));
                        }
                    }
                }
            }
            if log.violation.is_some() || step == sc.steps {
                break;
            }
            // one step
            let it = sut(|| cpu::with_host(sc.host, || sampler.next()));
            let it = match it {
                Err(p) => {
                    fail(&mut log, p.class(), tags, format!("Sampler::next() step {}: {}", step, p.msg));
                    break;
                }
                Ok(None) => {
                    log.ended = true;
                    log.lines.push(format!("step {} -> None", step));
                    // once None, always None
                    for _ in 0..2 {
                        match sut(|| cpu::with_host(sc.host, || sampler.next())) {
                            Ok(None) => {}
                            Ok(Some(_)) => fail(&mut log, "resumed-after-end".into(), tags, format!("next() returned an iteration after it had returned None at step {}", step)),
                            Err(p) => fail(&mut log, p.class(), tags, format!("next() after None: {}", p.msg)),
                        }
                    }
                    break;
                }
                Ok(Some(it)) => it,
            };
            log.steps_done += 1;
            let z = it.z;
            if z >= seqs.len() {
                fail(&mut log, "holdout-out-of-range".into(), tags, format!("step {}: held-out sequence {} of {}", step, z, seqs.len()));
                break;
            }
            // counts reported with the iteration: alignment before the step without z
            let without: Vec<(usize, usize)> = members.iter().copied().filter(|&(i, _)| i != z).collect();
            let want_it = window_counts::<A>(&seqs, &without, width);
            let got_it: Vec<Vec<u32>> = it.counts.matrix().iter().map(|r| r.to_vec()).collect();
            if got_it != want_it {
                let row = got_it.iter().zip(want_it.iter()).position(|(a, b)| a != b).unwrap_or(0);
                fail(&mut log, "iteration-counts".into(), tags, format!("step {} (z={}): iteration counts row {} is {:?} but the alignment without the held-out sequence gives {:?}", step, z, row, got_it.get(row), want_it.get(row)));
                break;
            }
            let was_active = pre_active.contains(&z);
            let post_active = sampler.active_sequences();
            let post_starts = sampler.active_starts();
            if post_active.len() != post_starts.len() {
                fail(&mut log, "alignment-shape".into(), tags, format!("step {}: {} active sequences but {} starts", step, post_active.len(), post_starts.len()));
                break;
            }
            if !was_active {
                log.holdout_inactive += 1;
                if post_active.contains(&z) {
                    log.kept += 1;
                } else {
                    log.rejected += 1;
                }
            }
            if let Some(pos) = post_active.iter().position(|&i| i == z) {
                let st = post_starts[pos];
                if st + width == seqs[z].len() {
                    log.last_start_chosen += 1;
                }
                if st == 0 {
                    log.first_start_chosen += 1;
                }
            }
            log.lines.push(format!("step {} z={} active={:016x} starts={:016x} draws={}", step, z, fnv_usizes(&post_active), fnv_usizes(&post_starts), "-"));
            pre_active = post_active;
            pre_starts = post_starts;
        }
        if let Err(p) = sut(move || drop(sampler)) {
            fail(&mut log, p.class(), tags, format!("drop(Sampler): {}", p.msg));
        }
    }
    let _ = sut(move || drop(data));
    let _ = sut(move || drop(striped));
    alloc::end_run();
    log.draws = rng.draws;
    log.forced = rng.forced_fired;
    log.rng_digest = rng.digest;
    log
}

pub struct GibbsSim;

fn run_typed<A: Alphabet>(sc: &Sc, o: &mut Outcome)
where
    Pipeline<A, Dispatch>: Score<f32, A, lightmotif::num::U32>,
{
    let tags = format!(
        "mode={}",
        match sc.mode {
            Mode::Oops => "oops",
            Mode::Zoops { .. } => "zoops",
        }
    );
    let a = run_once::<A>(sc, &tags);
    o.steps += a.steps_done as u64 + a.draws;
    for l in &a.lines {
        crate::ev!(o.trace, "{}", l);
    }
    crate::ev!(o.trace, "rng draws={} digest={:016x} forced={:?}", a.draws, a.rng_digest, a.forced);
    if let Some(v) = a.violation {
        o.violate(v);
        return;
    }
    // history check: a second execution with the same data, parameters and seed gives the same trace
    let b = run_once::<A>(sc, &tags);
    if b.violation.is_some() || a.lines != b.lines || a.rng_digest != b.rng_digest || a.draws != b.draws {
        let first = a.lines.iter().zip(b.lines.iter()).position(|(x, y)| x != y).unwrap_or(a.lines.len().min(b.lines.len()));
        o.violate(Violation::new(
            "nondeterministic-trace",
            tags.clone(),
            format!(
                "two runs with the same data, parameters and seed diverge at trace line {} ({:?} vs {:?}); draws {} vs {}",
                first,
                a.lines.get(first),
                b.lines.get(first),
                a.draws,
                b.draws
            ),
        ));
        return;
    }
    if a.kept > 0 {
        o.probe("zoops-inclusion-kept");
    }
    if a.rejected > 0 {
        o.probe("zoops-inclusion-rejected");
    }
    if a.ended {
        o.probe("zoops-converged(None)");
    }
    if a.holdout_inactive > 0 {
        o.probe("hold-out-was-inactive");
    }
    if a.last_start_chosen > 0 {
        o.probe("start-at-L-minus-w-chosen");
    }
    if a.forced[0] > 0 {
        o.fault("forced-draw-zero");
    }
    if a.forced[1] > 0 {
        o.fault("forced-draw-max");
    }
    if a.forced[2] > 0 {
        o.fault("forced-draw-repeat");
    }
    if a.steps_done >= 10 {
        let wc = if sc.width == 1 { "w1" } else if sc.width < 8 { "w<8" } else { "w>=8" };
        let nc = if sc.seqs.len() <= 3 { "n<=3" } else if sc.seqs.len() <= 10 { "n<=10" } else { "n>10" };
        o.cov = Some(format!(
            "{:?}|{}|{}|{}|{}|forced{}{}{}|kept{}|rej{}|end{}|wild{}",
            sc.abc,
            tags,
            sc.host.as_str(),
            wc,
            nc,
            (a.forced[0] > 0) as u8,
            (a.forced[1] > 0) as u8,
            (a.forced[2] > 0) as u8,
            (a.kept > 0) as u8,
            (a.rejected > 0) as u8,
            a.ended as u8,
            sc.seqs.iter().any(|s| s.contains(if sc.abc == Abc::Dna { 'N' } else { 'X' })) as u8
        ));
    }
}

fn gen_world(r: &mut Prng, idx: u64, tier: Tier) -> Sc {
    let abc = if idx % 2 == 0 { Abc::Dna } else { Abc::Protein };
    let letters: &[u8] = if abc == Abc::Dna { b"ACGT" } else { b"ACDEFGHIKLMNPQRSTVWY" };
    let wild = if abc == Abc::Dna { b'N' } else { b'X' };
    let width = match r.below(6) {
        0 => 1,
        1 => r.range(17, 30),
        _ => r.range(2, 16),
    };
    let n = match r.below(6) {
        0 => 2,
        1 => r.range(15, 30),
        _ => r.range(3, 12),
    };
    let with_wild = r.chance(1, 3);
    // one dataset in 40 contains a long sequence (hundreds of striped rows) with long masked runs
    let long_one = idx % 40 == 39;
    let motif: Vec<u8> = (0..width).map(|_| *r.pick(letters)).collect();
    let mut seqs = Vec::with_capacity(n);
    for _ in 0..n {
        let len = match r.below(7) {
            0 => width + 1,
            1 => r.range(width + 1, width + 4),
            2 => (*r.pick(&[31usize, 32, 33, 63, 64, 65, 95, 96, 97, 127, 128, 129, 159, 160, 161])).max(width + 1),
            3 => (32 * r.range(1, 40) + *r.pick(&[0usize, 1, 31])).max(width + 1),
            _ => r.range(width + 1, 200.max(width + 2)),
        };
        let mut s: Vec<u8> = (0..len).map(|_| *r.pick(letters)).collect();
        if r.chance(2, 3) {
            // plant a noisy copy of a common motif
            let at = r.usize_below(len - width + 1);
            for j in 0..width {
                if r.chance(4, 5) {
                    s[at + j] = motif[j];
                }
            }
        }
        if with_wild {
            let k = r.range(1, 1 + len / 6);
            for _ in 0..k {
                let p = if r.chance(1, 3) { len - 1 - r.usize_below(width.min(len)) } else { r.usize_below(len) };
                s[p] = wild;
            }
        }
        seqs.push(String::from_utf8(s).unwrap());
    }
    if long_one {
        let len = *r.pick(&[8160usize, 8192, 8193, 12000, 16384, 20000]);
        let mut s: Vec<u8> = (0..len).map(|_| *r.pick(letters)).collect();
        for _ in 0..r.range(1, 3) {
            let at = r.usize_below(len);
            let run = r.range(300, 900);
            let sym = if r.chance(2, 3) { wild } else { *r.pick(letters) };
            for k in at..(at + run).min(len) {
                s[k] = sym;
            }
        }
        seqs[0] = String::from_utf8(s).unwrap();
    }
    let mode = if (idx / 2) % 2 == 0 {
        Mode::Oops
    } else {
        Mode::Zoops {
            seeds: r.range(2, n.max(2)),
            inertia: if r.chance(1, 2) { Some(r.range(0, 60)) } else { None },
            patience: if r.chance(1, 2) { Some(r.range(0, 40)) } else { None },
        }
    };
    let host = match (idx / 4) % 4 {
        0 | 1 => Host::Avx2,
        2 => Host::Sse2,
        _ => Host::Generic,
    };
    let host = if host == Host::Avx2 && !cpu::real_host_has_avx2() { Host::Sse2 } else { host };
    let steps = if tier == Tier::Quick { r.heavy(1, 200) } else { r.heavy(1, 2000) };
    // forced draws: sparse (<= 5 % of draw indices), never consecutive
    let mut forced = Vec::new();
    if r.chance(2, 3) {
        let horizon = (steps as u64 * 3 + n as u64 + 8).max(16);
        let k = r.range(1, ((horizon / 20) as usize).max(1).min(40));
        let mut at = r.below(8);
        for _ in 0..k {
            forced.push((at, *r.pick(&[Forced::Zero, Forced::Max, Forced::Max, Forced::Zero, Forced::RepeatPrev])));
            at += 2 + r.below(horizon / k as u64 + 2);
        }
    }
    Sc {
        abc,
        seqs,
        width,
        mode,
        host,
        alloc: if r.chance(1, 3) { Policy::ExactPoison } else { Policy::System },
        rng: RngPlan { seed: r.next_u64(), forced },
        steps,
        extra_wrap: if r.chance(1, 3) { r.range(1, 20) } else { 0 },
        sampled: if idx % 10 == 7 { Some(r.next_u64()) } else { None },
    }
}

pub fn run_sc(sc: &Sc, o: &mut Outcome) {
    o.probe(match sc.host {
        Host::Generic => "host=generic",
        Host::Sse2 => "host=sse2",
        Host::Avx2 => "host=avx2",
    });
    o.probe(match sc.alloc {
        Policy::System => "alloc=system",
        Policy::ExactPoison => "alloc=exact-align+poison",
        Policy::GuardEnd => "alloc=guard-end",
        Policy::GuardStart => "alloc=guard-start",
    });
    match sc.abc {
        Abc::Dna => run_typed::<Dna>(sc, o),
        Abc::Protein => run_typed::<Protein>(sc, o),
    }
}

impl Sim for GibbsSim {
    type Sc = Sc;
    const NAME: &'static str = "gibbs";

    fn plan(_prop: &str, tier: Tier) -> Vec<Phase> {
        match tier {
            Tier::Quick => vec![Phase { name: "runs", count: 200_000, exhaustive: false }],
            Tier::Thorough => vec![Phase { name: "runs", count: 1_500_000, exhaustive: false }],
        }
    }

    fn generate(_prop: &str, tier: Tier, _phase: &str, idx: u64, r: &mut Prng) -> Sc {
        gen_world(r, idx, tier)
    }

    fn run(_prop: &str, sc: &Sc, keep_trace: bool) -> Outcome {
        let mut o = Outcome::new(keep_trace);
        run_sc(sc, &mut o);
        o
    }

    fn shrink(sc: &Sc) -> Vec<Sc> {
        let mut out = Vec::new();
        if sc.alloc != Policy::System && !sc.alloc.is_guard() {
            let mut s = sc.clone();
            s.alloc = Policy::System;
            out.push(s);
        }
        if sc.steps > 1 {
            for ns in [sc.steps / 2, sc.steps - 1] {
                let mut s = sc.clone();
                s.steps = ns;
                out.push(s);
            }
        }
        if !sc.rng.forced.is_empty() {
            let mut s = sc.clone();
            s.rng.forced.clear();
            out.push(s);
            for i in 0..sc.rng.forced.len().min(12) {
                let mut s = sc.clone();
                s.rng.forced.remove(i);
                out.push(s);
            }
        }
        let min_n = match sc.mode {
            Mode::Oops => 2,
            Mode::Zoops { seeds, .. } => seeds.max(2),
        };
        if sc.seqs.len() > min_n {
            for i in 0..sc.seqs.len() {
                let mut s = sc.clone();
                s.seqs.remove(i);
                out.push(s);
            }
        }
        if let Mode::Zoops { seeds, inertia, patience } = &sc.mode {
            if *seeds > 2 {
                let mut s = sc.clone();
                s.mode = Mode::Zoops { seeds: 2, inertia: *inertia, patience: *patience };
                out.push(s);
            }
            if inertia.is_some() || patience.is_some() {
                let mut s = sc.clone();
                s.mode = Mode::Zoops { seeds: *seeds, inertia: None, patience: None };
                out.push(s);
            }
        }
        for (i, q) in sc.seqs.iter().enumerate() {
            if q.len() > sc.width + 1 {
                for nl in [(q.len() + sc.width + 1) / 2, q.len() - 1] {
                    if nl > sc.width && nl < q.len() {
                        let mut s = sc.clone();
                        s.seqs[i] = q[..nl].to_string();
                        out.push(s);
                    }
                }
            }
        }
        if sc.extra_wrap > 0 {
            let mut s = sc.clone();
            s.extra_wrap = 0;
            out.push(s);
        }
        if sc.host != Host::Generic {
            let mut s = sc.clone();
            s.host = Host::Generic;
            out.push(s);
        }
        out
    }

    fn size(sc: &Sc) -> BTreeMap<&'static str, u64> {
        let mut m = BTreeMap::new();
        m.insert("sequences", sc.seqs.len() as u64);
        m.insert("steps", sc.steps as u64);
        m.insert("forced_draws", sc.rng.forced.len() as u64);
        m.insert("symbols", sc.seqs.iter().map(|s| s.len() as u64).sum());
        m
    }

    fn needs_child(sc: &Sc) -> bool {
        sc.alloc.is_guard()
    }

    fn rule(_prop: &str) -> String {
        "Cases: datasets of 2..30 DNA or protein sequences (length width+1..200, planted noisy motif copies, optionally wildcard symbols placed near the sequence end), width 1..30, one-occurrence (OOPS) or zero-or-one (ZOOPS, seeds >= 2, optional inertia / patience) mode, simulated host CPU, allocator policy, look-ahead rows >= width, 1..200 (quick) / 1..2000 (thorough) steps, and an RNG plan: a recorded PRNG stream with sparse forced draws (0, u64::MAX, repeat of the previous value). After every step: count matrix, background (within float rounding), start ranges and iteration counts are compared with a recomputation from the reported alignment; once None always None; the run is executed twice and the traces compared. Distinct = distinct tuples (alphabet, mode, host, width class, dataset-size class, forced-draw kinds fired, ZOOPS inclusion kept / rejected / converged, wildcard present). Non-trivial = at least 10 steps were executed.".to_string()
    }

    fn required_probes(_prop: &str, _tier: Tier) -> Vec<&'static str> {
        vec!["hold-out-was-inactive", "start-at-L-minus-w-chosen"]
    }

    fn components(_prop: &str) -> (Vec<String>, Vec<String>) {
        (
            vec!["lightmotif::sampler (Sampler, SamplerData, SamplerBuilder), seq, pwm, pli kernels per simulated host".into(), "rand 0.8 distributions (Uniform, WeightedIndex, index::sample) on top of the stubbed RngCore".into()],
            vec!["RNG (SimRng: rand_core::RngCore with recorded and forced draws)".into(), "allocator (SimAlloc)".into(), "CPU probe (verif-hooks override)".into()],
        )
    }

    fn assumptions(_prop: &str) -> Vec<String> {
        vec![
            "In contract: every sequence longer than the width, look-ahead rows >= width (the sampler's own guard), at least two sequences (OOPS) or two seed sequences (ZOOPS), so that the alignment without the held-out sequence is never empty.".into(),
            "Forced draws are sparse and never consecutive; any single value is a legal output of a random generator.".into(),
            "Trace equality is demanded within one host CPU profile only (summation order differs between kernels).".into(),
            "Not demanded because the property does not state it: the value of Iteration::step, CountMatrix::sequence_count, and the pseudocount / scoring matrix of an iteration.".into(),
        ]
    }
}
