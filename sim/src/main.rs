//! `lmsim`: deterministic simulation with fault injection for althonos/lightmotif (Rust tiers).

use lmsim::sims;

#[global_allocator]
static GLOBAL: lmsim::seam::alloc::SimAlloc = lmsim::seam::alloc::SimAlloc;

fn sim_of(prop: &str) -> &'static str {
    match prop {
        "C14" | "C15" => "stream",
        "C02" | "C03" => "scan",
        "C04" => "stripe",
        "C16" => "gibbs",
        "C19" => "dense",
        "C06" => "mem",
        _ => {
            eprintln!("HARNESS: no simulator serves property {}", prop);
            std::process::exit(2);
        }
    }
}

macro_rules! with_sim {
    ($name:expr, $s:ident, $body:block) => {
        match $name {
            "stream" => {
                type $s = sims::stream::StreamSim;
                $body
            }
            "scan" => {
                type $s = sims::scan::ScanSim;
                $body
            }
            "stripe" => {
                type $s = sims::stripe::StripeSim;
                $body
            }
            "gibbs" => {
                type $s = sims::gibbs::GibbsSim;
                $body
            }
            "dense" => {
                type $s = sims::dense::DenseSim;
                $body
            }
            "mem" => {
                type $s = sims::mem::MemSim;
                $body
            }
            other => {
                eprintln!("HARNESS: unknown simulator {}", other);
                std::process::exit(2);
            }
        }
    };
}

fn main() {
    lmsim::lmsim_main!(sim_of, with_sim)
}
