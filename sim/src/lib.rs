//! `lmsim` library: simulation kit, seams and simulators, shared by the `lmsim` and `lmsim-py` binaries.

#[macro_use]
pub mod kit;
pub mod seam;
pub mod sims;

use serde_json::json;

use kit::runner;
use kit::{Sim, Tier};

pub fn env_seed() -> u64 {
    match std::env::var("VERIF_SEED") {
        Ok(s) if !s.trim().is_empty() => s.trim().parse::<u64>().unwrap_or_else(|_| {
            eprintln!("HARNESS: VERIF_SEED must be an unsigned integer");
            std::process::exit(2);
        }),
        _ => kit::DEFAULT_SEED,
    }
}

pub fn opt(args: &[String], name: &str) -> Option<String> {
    args.iter().position(|a| a == name).and_then(|i| args.get(i + 1).cloned())
}

pub fn check<S: Sim>(prop: &str, tier: Tier, args: &[String]) -> i32 {
    let seed = env_seed();
    let workers: usize = opt(args, "--workers")
        .or_else(|| std::env::var("VERIF_WORKERS").ok())
        .and_then(|s| s.parse().ok())
        .unwrap_or(16);
    let limit: Option<u64> = opt(args, "--runs").and_then(|s| s.parse().ok());
    println!(
        "VERIF_SEED={} property={} sim={} tier={} profile={} workers={}",
        seed,
        prop,
        S::NAME,
        tier.as_str(),
        runner::profile_name(),
        workers
    );
    let res = runner::run_check::<S>(prop, tier, seed, workers, limit, false, args.iter().any(|a| a == "--spread"));
    let rep = runner::report::<S>(prop, seed, &res);
    // vacuity: required probes must have fired (whole plans only)
    let mut vacuous = Vec::new();
    // (the AddressSanitizer pass forces the system allocator: probes of the allocator seam cannot fire there)
    let forced_system = std::env::var("LMSIM_FORCE_ALLOC").map(|v| v == "system").unwrap_or(false);
    let restricted = std::env::var("LMSIM_PHASES").map(|v| !v.trim().is_empty()).unwrap_or(false);
    if limit.is_none() && !forced_system && !restricted {
        for p in S::required_probes(prop, tier) {
            if res.totals.probes.get(p).copied().unwrap_or(0) == 0 {
                vacuous.push(p);
            }
        }
    }
    kit::evidence::write::<S>(prop, tier, seed, workers, &res, &rep, json!({"vacuous_required_probes": vacuous}));
    println!(
        "runs={} distinct_histories={} distinct_nontrivial={} steps={} wall={:.1}s violations={} known={} worker_deaths={}",
        res.hashes.len(),
        res.hashes.iter().map(|h| h.1).collect::<std::collections::BTreeSet<_>>().len(),
        res.keys.len(),
        res.totals.steps,
        res.wall_s,
        rep.violations,
        rep.known_hits.len(),
        res.worker_deaths
    );
    // a violation that was confirmed and replayed in fresh processes stands even if another candidate
    // could not be confirmed
    if rep.violations > 0 {
        return 1;
    }
    if rep.harness_error {
        return 2;
    }
    if !vacuous.is_empty() {
        eprintln!("HARNESS: vacuous run, required probes never fired: {:?}", vacuous);
        return 2;
    }
    if res.keys.len() < 2 {
        eprintln!("HARNESS: fewer than two distinct non-trivial cases");
        return 2;
    }
    0
}

/// Generic command-line driver: `$dispatch` maps a simulator name to a type and runs the body.
#[macro_export]
macro_rules! lmsim_main {
    ($sim_of:expr, $with_sim:ident) => {{
        use $crate::kit::runner;
        use $crate::kit::Tier;
        let args: Vec<String> = std::env::args().collect();
        if args.len() < 2 {
            eprintln!("usage: check <PROP> <quick|thorough> | replay <file> | dump <PROP> <tier> --runs N --workers W");
            std::process::exit(2);
        }
        match args[1].as_str() {
            "check" => {
                let prop = args[2].as_str();
                let tier = Tier::parse(&args[3]).expect("tier");
                let code = $with_sim!($sim_of(prop), S, { $crate::check::<S>(prop, tier, &args) });
                std::process::exit(code);
            }
            "worker" => {
                let sim = args[2].as_str();
                let prop = args[3].as_str();
                let tier = Tier::parse(&args[4]).expect("tier");
                let seed: u64 = args[5].parse().unwrap();
                let start: u64 = args[6].parse().unwrap();
                let end: u64 = args[7].parse().unwrap();
                let samples: u64 = args[8].parse().unwrap();
                let cell = args[9].as_str();
                let dump = args[10] == "dump";
                let stride: u64 = args[11].parse().unwrap();
                $with_sim!(sim, S, { runner::worker_main::<S>(prop, tier, seed, start, end, samples, cell, dump, stride) });
            }
            "exec" => {
                let sim = args[2].as_str();
                let prop = args[3].as_str();
                let keep = args[5] == "trace";
                $with_sim!(sim, S, { runner::exec_main::<S>(prop, &args[4], keep) });
            }
            "replay" => {
                let text = std::fs::read_to_string(&args[2]).unwrap_or_else(|e| {
                    eprintln!("HARNESS: cannot read {}: {}", args[2], e);
                    std::process::exit(2);
                });
                let doc: serde_json::Value = serde_json::from_str(&text).unwrap_or_else(|e| {
                    eprintln!("HARNESS: {} is not JSON: {}", args[2], e);
                    std::process::exit(2);
                });
                let prop = doc["property"].as_str().unwrap_or("").to_string();
                let sim = doc["sim"].as_str().unwrap_or("").to_string();
                let code = $with_sim!(sim.as_str(), S, { runner::replay_main::<S>(&prop, &doc) });
                std::process::exit(code);
            }
            "dump" => {
                let prop = args[2].as_str();
                let tier = Tier::parse(&args[3]).expect("tier");
                let seed = $crate::env_seed();
                let workers: usize = $crate::opt(&args, "--workers").and_then(|s| s.parse().ok()).unwrap_or(16);
                let limit: Option<u64> = $crate::opt(&args, "--runs").and_then(|s| s.parse().ok());
                $with_sim!($sim_of(prop), S, {
                    let res = runner::run_check::<S>(prop, tier, seed, workers, limit, true, args.iter().any(|a| a == "--spread"));
                    for (idx, h, c) in &res.dump {
                        println!("{} {:016x} {}", idx, h, c);
                    }
                    for f in &res.found {
                        if f.violation.class.starts_with("trap") || f.violation.class.starts_with("abort") {
                            println!("{} died {}", f.run, f.violation.class);
                        }
                    }
                });
            }
            other => {
                eprintln!("HARNESS: unknown command {}", other);
                std::process::exit(2);
            }
        }
    }};
}
