//! Allocator seam. The harness binary installs `SimAlloc` as `#[global_allocator]`. It passes
//! through to `System` unless the process is inside a *SUT scope* and a policy other than
//! `System` is selected for the current run.
//!
//! Policies:
//! * `System` - the system allocator's placement; inside a SUT scope fresh memory is still filled
//!   with 0xA5 so that reads of uninitialised memory are deterministic across processes.
//! * `ExactPoison` – bump arena; address is a multiple of `align` but NOT of `2*align` (odd for
//!   align 1); fresh memory filled with 0xA5; freed memory filled with 0x5A and never reused
//!   within the run; `realloc` always moves.
//! * `GuardEnd` / `GuardStart` – each block in its own pages inside a `PROT_NONE` region, flush
//!   against an inaccessible page after its end (resp. before its start); freed blocks become
//!   `PROT_NONE` until the run ends. Any out-of-block or use-after-free access is a SIGSEGV.
//!
//! Worker processes are single-threaded; the parent never selects a policy other than `System`.

use std::alloc::{GlobalAlloc, Layout, System};
use std::sync::atomic::{AtomicBool, AtomicU64, AtomicU8, AtomicUsize, Ordering::Relaxed};

use serde::{Deserialize, Serialize};

#[derive(Clone, Copy, Debug, PartialEq, Eq, Serialize, Deserialize, PartialOrd, Ord)]
pub enum Policy {
    System,
    ExactPoison,
    GuardEnd,
    GuardStart,
}

impl Policy {
    pub fn as_str(&self) -> &'static str {
        match self {
            Policy::System => "system",
            Policy::ExactPoison => "exact-align+poison",
            Policy::GuardEnd => "guard-end",
            Policy::GuardStart => "guard-start",
        }
    }
    pub fn is_guard(&self) -> bool {
        matches!(self, Policy::GuardEnd | Policy::GuardStart)
    }
    fn code(&self) -> u8 {
        match self {
            Policy::System => 0,
            Policy::ExactPoison => 1,
            Policy::GuardEnd => 2,
            Policy::GuardStart => 3,
        }
    }
}

pub struct SimAlloc;

const PAGE: usize = 4096;
const EXACT_SIZE: usize = 8 << 30; // 8 GiB of address space (NORESERVE)
const GUARD_SIZE: usize = 64 << 30; // 64 GiB of address space (PROT_NONE, NORESERVE)
const REDZONE: usize = 64;

pub const FRESH: u8 = 0xA5;
pub const FREED: u8 = 0x5A;

static POLICY: AtomicU8 = AtomicU8::new(0);
static SCOPE: AtomicBool = AtomicBool::new(false);

static EXACT_BASE: AtomicUsize = AtomicUsize::new(0);
static EXACT_OFF: AtomicUsize = AtomicUsize::new(0);
static GUARD_BASE: AtomicUsize = AtomicUsize::new(0);
static GUARD_OFF: AtomicUsize = AtomicUsize::new(0); // in bytes, page multiple

static LIVE: AtomicUsize = AtomicUsize::new(0);
pub static ALLOCS: AtomicU64 = AtomicU64::new(0);
pub static MOVES: AtomicU64 = AtomicU64::new(0);
pub static NOT_RESET: AtomicU64 = AtomicU64::new(0);
pub static CURRENT_RUN: AtomicU64 = AtomicU64::new(u64::MAX);

#[inline]
fn active() -> bool {
    SCOPE.load(Relaxed) && POLICY.load(Relaxed) != 0
}

#[inline]
fn in_region(p: usize, base: &AtomicUsize, size: usize) -> bool {
    let b = base.load(Relaxed);
    b != 0 && p >= b && p < b + size
}

unsafe fn map_region(size: usize, prot: i32) -> usize {
    let p = libc::mmap(
        std::ptr::null_mut(),
        size,
        prot,
        libc::MAP_PRIVATE | libc::MAP_ANONYMOUS | libc::MAP_NORESERVE,
        -1,
        0,
    );
    if p == libc::MAP_FAILED {
        let msg = b"HARNESS: mmap of simulated heap failed\n";
        libc::write(2, msg.as_ptr() as *const _, msg.len());
        libc::_exit(2);
    }
    p as usize
}

unsafe fn exact_alloc(l: Layout) -> *mut u8 {
    let mut base = EXACT_BASE.load(Relaxed);
    if base == 0 {
        base = map_region(EXACT_SIZE, libc::PROT_READ | libc::PROT_WRITE);
        EXACT_BASE.store(base, Relaxed);
        EXACT_OFF.store(0, Relaxed);
    }
    let align = l.align();
    let two = align * 2;
    let cur = base + EXACT_OFF.load(Relaxed) + REDZONE;
    // multiple of 2*align, plus align => multiple of align, not of 2*align (odd when align == 1)
    let addr = ((cur + two - 1) / two) * two + align;
    let end = addr + l.size();
    if end + REDZONE > base + EXACT_SIZE {
        let msg = b"HARNESS: simulated heap (exact) exhausted\n";
        libc::write(2, msg.as_ptr() as *const _, msg.len());
        libc::_exit(2);
    }
    EXACT_OFF.store(end - base, Relaxed);
    std::ptr::write_bytes(addr as *mut u8, FRESH, l.size());
    // redzone after the block carries the FREED pattern so that over-reads see foreign bytes
    std::ptr::write_bytes(end as *mut u8, FREED, REDZONE);
    addr as *mut u8
}

unsafe fn guard_alloc(l: Layout, at_end: bool) -> *mut u8 {
    let mut base = GUARD_BASE.load(Relaxed);
    if base == 0 {
        base = map_region(GUARD_SIZE, libc::PROT_NONE);
        GUARD_BASE.store(base, Relaxed);
        GUARD_OFF.store(PAGE, Relaxed); // first page stays a guard
    }
    let size = l.size().max(1);
    let n_pages = (size + PAGE - 1) / PAGE;
    let off = GUARD_OFF.load(Relaxed);
    let start = base + off;
    let bytes = n_pages * PAGE;
    if off + bytes + PAGE > GUARD_SIZE {
        let msg = b"HARNESS: simulated heap (guard) exhausted\n";
        libc::write(2, msg.as_ptr() as *const _, msg.len());
        libc::_exit(2);
    }
    GUARD_OFF.store(off + bytes + PAGE, Relaxed); // one guard page after
    if libc::mprotect(start as *mut _, bytes, libc::PROT_READ | libc::PROT_WRITE) != 0 {
        let msg = b"HARNESS: mprotect(RW) failed\n";
        libc::write(2, msg.as_ptr() as *const _, msg.len());
        libc::_exit(2);
    }
    std::ptr::write_bytes(start as *mut u8, FRESH, bytes);
    let addr = if at_end {
        (start + bytes - size) & !(l.align() - 1)
    } else {
        start
    };
    addr as *mut u8
}

unsafe fn guard_free(p: *mut u8, l: Layout) {
    let size = l.size().max(1);
    let n_pages = (size + PAGE - 1) / PAGE;
    let start = (p as usize) & !(PAGE - 1);
    let bytes = n_pages * PAGE;
    libc::mprotect(start as *mut _, bytes, libc::PROT_NONE);
    libc::madvise(start as *mut _, bytes, libc::MADV_DONTNEED);
}

unsafe fn arena_alloc(l: Layout) -> *mut u8 {
    if l.align() > PAGE {
        return System.alloc(l);
    }
    ALLOCS.fetch_add(1, Relaxed);
    LIVE.fetch_add(1, Relaxed);
    match POLICY.load(Relaxed) {
        1 => exact_alloc(l),
        2 => guard_alloc(l, true),
        _ => guard_alloc(l, false),
    }
}

unsafe impl GlobalAlloc for SimAlloc {
    unsafe fn alloc(&self, l: Layout) -> *mut u8 {
        if active() {
            arena_alloc(l)
        } else if SCOPE.load(Relaxed) {
            // system placement, but fresh memory never carries whatever the heap held before:
            // a read of uninitialised memory then behaves the same in every process (replayable)
            let p = System.alloc(l);
            if !p.is_null() {
                std::ptr::write_bytes(p, FRESH, l.size());
            }
            p
        } else {
            System.alloc(l)
        }
    }

    unsafe fn dealloc(&self, p: *mut u8, l: Layout) {
        let a = p as usize;
        if in_region(a, &EXACT_BASE, EXACT_SIZE) {
            std::ptr::write_bytes(p, FREED, l.size());
            LIVE.fetch_sub(1, Relaxed);
        } else if in_region(a, &GUARD_BASE, GUARD_SIZE) {
            guard_free(p, l);
            LIVE.fetch_sub(1, Relaxed);
        } else {
            System.dealloc(p, l)
        }
    }

    unsafe fn alloc_zeroed(&self, l: Layout) -> *mut u8 {
        if active() {
            let p = arena_alloc(l);
            std::ptr::write_bytes(p, 0, l.size());
            p
        } else {
            System.alloc_zeroed(l)
        }
    }

    unsafe fn realloc(&self, p: *mut u8, l: Layout, new_size: usize) -> *mut u8 {
        let a = p as usize;
        let ours = in_region(a, &EXACT_BASE, EXACT_SIZE) || in_region(a, &GUARD_BASE, GUARD_SIZE);
        if ours || active() {
            let nl = Layout::from_size_align_unchecked(new_size, l.align());
            let np = self.alloc(nl);
            std::ptr::copy_nonoverlapping(p, np, l.size().min(new_size));
            self.dealloc(p, l);
            MOVES.fetch_add(1, Relaxed);
            np
        } else if SCOPE.load(Relaxed) && new_size > l.size() {
            let np = System.realloc(p, l, new_size);
            if !np.is_null() {
                std::ptr::write_bytes(np.add(l.size()), FRESH, new_size - l.size());
            }
            np
        } else {
            System.realloc(p, l, new_size)
        }
    }
}

// --- control -----------------------------------------------------------------------------------

/// Select the policy for the run that starts now. Resets the arenas if nothing is live.
/// `LMSIM_FORCE_ALLOC=system` makes every run use the system allocator (AddressSanitizer pass:
/// the sanitizer's own redzones and quarantine then guard every block).
fn forced_system() -> bool {
    static FORCED: std::sync::OnceLock<bool> = std::sync::OnceLock::new();
    *FORCED.get_or_init(|| std::env::var("LMSIM_FORCE_ALLOC").map(|v| v == "system").unwrap_or(false))
}

pub fn begin_run(policy: Policy) {
    let policy = if forced_system() { Policy::System } else { policy };
    SCOPE.store(false, Relaxed);
    if LIVE.load(Relaxed) == 0 {
        EXACT_OFF.store(0, Relaxed);
        GUARD_OFF.store(PAGE, Relaxed);
    } else {
        NOT_RESET.fetch_add(1, Relaxed);
    }
    POLICY.store(policy.code(), Relaxed);
}

pub fn end_run() {
    SCOPE.store(false, Relaxed);
    POLICY.store(0, Relaxed);
}

pub fn live_blocks() -> usize {
    LIVE.load(Relaxed)
}

/// Enter the SUT scope; returns the previous state.
#[inline]
pub fn enter() -> bool {
    SCOPE.swap(true, Relaxed)
}

#[inline]
pub fn restore(prev: bool) {
    SCOPE.store(prev, Relaxed);
}

/// Leave the scope temporarily (harness bookkeeping inside a SUT call, e.g. the panic hook).
#[inline]
pub fn suspend() -> bool {
    SCOPE.swap(false, Relaxed)
}

/// Run `f` with allocations served by the simulated heap (argument construction).
pub fn scoped<T>(f: impl FnOnce() -> T) -> T {
    let prev = enter();
    let r = f();
    restore(prev);
    r
}

// --- trap handler ------------------------------------------------------------------------------

fn fmt_u64(mut v: u64, buf: &mut [u8; 32]) -> &[u8] {
    let mut i = buf.len();
    if v == 0 {
        i -= 1;
        buf[i] = b'0';
    }
    while v > 0 {
        i -= 1;
        buf[i] = b'0' + (v % 10) as u8;
        v /= 10;
    }
    &buf[i..]
}

fn fmt_hex(mut v: u64, buf: &mut [u8; 32]) -> &[u8] {
    let mut i = buf.len();
    if v == 0 {
        i -= 1;
        buf[i] = b'0';
    }
    while v > 0 {
        i -= 1;
        let d = (v & 15) as u8;
        buf[i] = if d < 10 { b'0' + d } else { b'a' + d - 10 };
        v >>= 4;
    }
    &buf[i..]
}

extern "C" fn on_trap(sig: i32, info: *mut libc::siginfo_t, _ctx: *mut libc::c_void) {
    unsafe {
        let addr = if info.is_null() { 0 } else { (*info).si_addr() as u64 };
        let run = CURRENT_RUN.load(Relaxed);
        let mut b1 = [0u8; 32];
        let mut b2 = [0u8; 32];
        let mut b3 = [0u8; 32];
        let parts: [&[u8]; 8] = [
            b"\nTRAP run=",
            fmt_u64(run, &mut b1),
            b" sig=",
            fmt_u64(sig as u64, &mut b2),
            b" addr=0x",
            fmt_hex(addr, &mut b3),
            b" heap=",
            if in_region(addr as usize, &GUARD_BASE, GUARD_SIZE) { b"guard" } else { b"other" },
        ];
        for p in parts.iter() {
            libc::write(1, p.as_ptr() as *const _, p.len());
        }
        libc::write(1, b"\n".as_ptr() as *const _, 1);
        libc::_exit(70);
    }
}

/// Install SIGSEGV / SIGBUS handlers on an alternate stack (worker processes only).
pub fn install_trap_handler() {
    unsafe {
        let stack_size = 64 * 1024;
        let stack = libc::mmap(
            std::ptr::null_mut(),
            stack_size,
            libc::PROT_READ | libc::PROT_WRITE,
            libc::MAP_PRIVATE | libc::MAP_ANONYMOUS,
            -1,
            0,
        );
        let ss = libc::stack_t {
            ss_sp: stack,
            ss_flags: 0,
            ss_size: stack_size,
        };
        libc::sigaltstack(&ss, std::ptr::null_mut());
        let mut sa: libc::sigaction = std::mem::zeroed();
        sa.sa_sigaction = on_trap as *const () as usize;
        sa.sa_flags = libc::SA_SIGINFO | libc::SA_ONSTACK;
        libc::sigemptyset(&mut sa.sa_mask);
        libc::sigaction(libc::SIGSEGV, &sa, std::ptr::null_mut());
        libc::sigaction(libc::SIGBUS, &sa, std::ptr::null_mut());
    }
}
