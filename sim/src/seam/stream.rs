//! Stream seam: `SimSource` implements `Read` and `BufRead` over an in-memory byte string and
//! delivers it according to an explicit transport plan: chunk schedule, structure-aimed cuts,
//! EINTR bursts, truncation (EOF as the crash point) and a sticky hard I/O error at an offset.

use std::cell::RefCell;
use std::io::{self, BufRead, ErrorKind, Read};
use std::rc::Rc;

use serde::{Deserialize, Serialize};

#[derive(Clone, Copy, Debug, PartialEq, Eq, Serialize, Deserialize, PartialOrd, Ord)]
pub enum Mode {
    /// The reader under test gets `SimSource` directly as its `BufRead`.
    Direct,
    /// `BufReader::with_capacity(cap, SimSource)`; `read` returns short reads.
    Wrapped,
}

#[derive(Clone, Copy, Debug, PartialEq, Eq, Serialize, Deserialize)]
pub enum HardKind {
    Other,
    UnexpectedEof,
    ConnectionReset,
    TimedOut,
    InvalidData,
    WouldBlock,
}

impl HardKind {
    pub fn kind(&self) -> ErrorKind {
        match self {
            HardKind::Other => ErrorKind::Other,
            HardKind::UnexpectedEof => ErrorKind::UnexpectedEof,
            HardKind::ConnectionReset => ErrorKind::ConnectionReset,
            HardKind::TimedOut => ErrorKind::TimedOut,
            HardKind::InvalidData => ErrorKind::InvalidData,
            HardKind::WouldBlock => ErrorKind::WouldBlock,
        }
    }
    pub const ALL: [HardKind; 6] = [
        HardKind::Other,
        HardKind::UnexpectedEof,
        HardKind::ConnectionReset,
        HardKind::TimedOut,
        HardKind::InvalidData,
        HardKind::WouldBlock,
    ];
}

#[derive(Clone, Debug, Serialize, Deserialize, PartialEq)]
pub struct Transport {
    pub mode: Mode,
    /// Capacity of the wrapping `BufReader` (Wrapped mode only).
    pub cap: usize,
    /// Cyclic schedule of chunk lengths (each >= 1). Empty = everything at once.
    pub chunks: Vec<usize>,
    /// Absolute offsets at which a chunk boundary is forced (structure-aimed cuts), sorted.
    pub cuts: Vec<usize>,
    /// (fetch index, burst length): before the fetch with this index, `Interrupted` is returned
    /// `burst` times. Sorted by index.
    pub eintr: Vec<(u64, u32)>,
    /// EOF after this many bytes (the crash point).
    pub truncate: Option<usize>,
    /// Sticky hard error once this offset is reached.
    pub error_at: Option<(usize, HardKind)>,
}

impl Transport {
    pub fn all_at_once() -> Self {
        Transport {
            mode: Mode::Direct,
            cap: 0,
            chunks: Vec::new(),
            cuts: Vec::new(),
            eintr: Vec::new(),
            truncate: None,
            error_at: None,
        }
    }
    pub fn eintr_total(&self) -> u64 {
        self.eintr.iter().map(|e| e.1 as u64).sum()
    }
    pub fn is_trivial(&self) -> bool {
        self.chunks.is_empty() && self.cuts.is_empty() && self.eintr.is_empty() && self.mode == Mode::Direct
    }
}

#[derive(Default, Debug)]
pub struct SrcStats {
    pub calls: u64,
    pub fetches: u64,
    pub eintr_fired: u64,
    pub hard_fired: u64,
    pub eof_seen: u64,
    pub bytes: u64,
    /// Offsets at which a chunk boundary actually fell (strictly inside the data).
    pub boundaries: Vec<usize>,
    /// FNV digest of the event sequence (folded into the run trace).
    pub digest: u64,
    pub budget_exceeded: bool,
}

impl SrcStats {
    #[inline]
    fn note(&mut self, tag: u8, v: u64) {
        self.digest ^= (tag as u64) << 56 ^ v;
        self.digest = self.digest.wrapping_mul(0x0000_0100_0000_01B3);
    }
}

pub const BUDGET_MSG: &str = "SIM-BUDGET: stream source polled beyond its step budget (no progress)";

pub struct SimSource {
    data: Rc<Vec<u8>>,
    /// Effective end of data (truncate applied).
    end: usize,
    pos: usize,
    /// End of the currently exposed chunk.
    cur_end: usize,
    plan: Transport,
    chunk_i: usize,
    eintr_i: usize,
    eintr_left: u32,
    armed: bool,
    failed: bool,
    budget: u64,
    pub stats: Rc<RefCell<SrcStats>>,
}

impl SimSource {
    pub fn new(data: Rc<Vec<u8>>, plan: &Transport) -> (Self, Rc<RefCell<SrcStats>>) {
        let end = plan.truncate.map(|t| t.min(data.len())).unwrap_or(data.len());
        let stats = Rc::new(RefCell::new(SrcStats {
            digest: 0xcbf2_9ce4_8422_2325,
            ..Default::default()
        }));
        let budget = 8 * data.len() as u64 + 8 * plan.eintr_total() + 1000;
        (
            SimSource {
                data,
                end,
                pos: 0,
                cur_end: 0,
                plan: plan.clone(),
                chunk_i: 0,
                eintr_i: 0,
                eintr_left: 0,
                armed: false,
                failed: false,
                budget,
                stats: stats.clone(),
            },
            stats,
        )
    }

    /// Make the next chunk available. Returns Err for EINTR / hard error.
    fn fetch(&mut self) -> io::Result<()> {
        let mut st = self.stats.borrow_mut();
        st.calls += 1;
        if st.calls > self.budget {
            st.budget_exceeded = true;
            drop(st);
            panic!("{}", BUDGET_MSG);
        }
        if self.pos < self.cur_end {
            return Ok(()); // data still buffered: no new fetch
        }
        if self.failed {
            st.hard_fired += 1;
            st.note(b'X', self.pos as u64);
            return Err(io::Error::new(self.plan.error_at.unwrap().1.kind(), "simulated I/O error"));
        }
        // EINTR plan is indexed by fetch number
        while self.eintr_i < self.plan.eintr.len() && self.plan.eintr[self.eintr_i].0 < st.fetches {
            self.eintr_i += 1;
        }
        if self.eintr_i < self.plan.eintr.len() && self.plan.eintr[self.eintr_i].0 == st.fetches {
            if !self.armed {
                self.armed = true;
                self.eintr_left = self.plan.eintr[self.eintr_i].1;
            }
            if self.eintr_left > 0 {
                self.eintr_left -= 1;
                st.eintr_fired += 1;
                st.note(b'E', self.pos as u64);
                return Err(io::Error::new(ErrorKind::Interrupted, "simulated EINTR"));
            }
            self.armed = false;
            self.eintr_i += 1;
        }
        st.fetches += 1;
        if let Some((off, _)) = self.plan.error_at {
            if off <= self.end && self.pos >= off {
                self.failed = true;
                st.hard_fired += 1;
                st.note(b'X', self.pos as u64);
                return Err(io::Error::new(self.plan.error_at.unwrap().1.kind(), "simulated I/O error"));
            }
        }
        if self.pos >= self.end {
            st.eof_seen += 1;
            st.note(b'Z', self.pos as u64);
            self.cur_end = self.pos;
            return Ok(());
        }
        let mut len = if self.plan.chunks.is_empty() {
            self.end - self.pos
        } else {
            let l = self.plan.chunks[self.chunk_i % self.plan.chunks.len()].max(1);
            self.chunk_i += 1;
            l
        };
        len = len.min(self.end - self.pos);
        // forced cuts
        let after = self.pos;
        if let Some(&c) = self.plan.cuts.iter().find(|&&c| c > after) {
            len = len.min(c - self.pos);
        }
        // never deliver past the error offset
        if let Some((off, _)) = self.plan.error_at {
            if off > self.pos {
                len = len.min(off - self.pos);
            }
        }
        self.cur_end = self.pos + len;
        if self.cur_end < self.end {
            st.boundaries.push(self.cur_end);
        }
        st.note(b'F', len as u64);
        Ok(())
    }

}

impl Read for SimSource {
    fn read(&mut self, buf: &mut [u8]) -> io::Result<usize> {
        if buf.is_empty() {
            return Ok(0);
        }
        self.fetch()?;
        let n = (self.cur_end - self.pos).min(buf.len());
        buf[..n].copy_from_slice(&self.data[self.pos..self.pos + n]);
        self.pos += n;
        let mut st = self.stats.borrow_mut();
        st.bytes += n as u64;
        st.note(b'R', n as u64);
        Ok(n)
    }
}

impl BufRead for SimSource {
    fn fill_buf(&mut self) -> io::Result<&[u8]> {
        self.fetch()?;
        Ok(&self.data[self.pos..self.cur_end])
    }

    fn consume(&mut self, amt: usize) {
        let mut st = self.stats.borrow_mut();
        st.calls += 1;
        st.note(b'C', amt as u64);
        st.bytes += amt as u64;
        drop(st);
        assert!(
            self.pos + amt <= self.cur_end,
            "SIM-CONTRACT: consume({}) beyond the {} bytes returned by fill_buf",
            amt,
            self.cur_end - self.pos
        );
        self.pos += amt;
    }
}
