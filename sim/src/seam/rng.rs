//! RNG seam: `SimRng` implements `rand_core::RngCore` (rand 0.8, as in /repo/Cargo.lock). It
//! records every draw and can force the value at chosen draw indices (sparse; never a constant
//! stream, which is not a legal RNG and would make rejection sampling spin forever).

use crate::kit::Prng;
use serde::{Deserialize, Serialize};

#[derive(Clone, Copy, Debug, PartialEq, Eq, Serialize, Deserialize)]
pub enum Forced {
    Zero,
    Max,
    RepeatPrev,
}

#[derive(Clone, Debug, Serialize, Deserialize, PartialEq)]
pub struct RngPlan {
    pub seed: u64,
    /// (draw index, forced value) sorted by index, no two consecutive indices.
    pub forced: Vec<(u64, Forced)>,
}

pub struct SimRng {
    prng: Prng,
    plan: Vec<(u64, Forced)>,
    next_forced: usize,
    pub draws: u64,
    prev: u64,
    pub forced_fired: [u64; 3],
    /// FNV hash of all values handed out (part of the run trace).
    pub digest: u64,
}

impl SimRng {
    pub fn new(plan: &RngPlan) -> Self {
        SimRng {
            prng: Prng::new(plan.seed),
            plan: plan.forced.clone(),
            next_forced: 0,
            draws: 0,
            prev: 0,
            forced_fired: [0; 3],
            digest: 0xcbf2_9ce4_8422_2325,
        }
    }

    fn draw(&mut self, width: u8) -> u64 {
        let natural = self.prng.next_u64();
        let mut v = natural;
        while self.next_forced < self.plan.len() && self.plan[self.next_forced].0 < self.draws {
            self.next_forced += 1;
        }
        if self.next_forced < self.plan.len() && self.plan[self.next_forced].0 == self.draws {
            match self.plan[self.next_forced].1 {
                Forced::Zero => {
                    v = 0;
                    self.forced_fired[0] += 1;
                }
                Forced::Max => {
                    v = u64::MAX;
                    self.forced_fired[1] += 1;
                }
                Forced::RepeatPrev => {
                    v = self.prev;
                    self.forced_fired[2] += 1;
                }
            }
            self.next_forced += 1;
        }
        self.prev = v;
        self.draws += 1;
        let out = if width == 32 { v >> 32 } else { v };
        self.digest ^= out ^ ((width as u64) << 56);
        self.digest = self.digest.wrapping_mul(0x0000_0100_0000_01B3);
        out
    }
}

impl rand_core::RngCore for SimRng {
    fn next_u32(&mut self) -> u32 {
        self.draw(32) as u32
    }
    fn next_u64(&mut self) -> u64 {
        self.draw(64)
    }
    fn fill_bytes(&mut self, dest: &mut [u8]) {
        for chunk in dest.chunks_mut(8) {
            let v = self.draw(64).to_le_bytes();
            chunk.copy_from_slice(&v[..chunk.len()]);
        }
    }
    fn try_fill_bytes(&mut self, dest: &mut [u8]) -> Result<(), rand_core::Error> {
        self.fill_bytes(dest);
        Ok(())
    }
}
