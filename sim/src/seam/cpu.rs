//! CPU seam: wrapper around the single hook in /repo (`lightmotif::pli::verif`, feature
//! `verif-hooks`). `with_host(profile, f)` makes `Pipeline::dispatch()` behave as on a host whose
//! best vector extension is `profile`.

use lightmotif::pli::dispatch::Dispatch;
use serde::{Deserialize, Serialize};

#[derive(Clone, Copy, Debug, PartialEq, Eq, Serialize, Deserialize, PartialOrd, Ord)]
pub enum Host {
    /// A target with neither x86 nor ARM vector code: everything generic.
    Generic,
    /// x86-64 without AVX2: SSE2 f32 scoring / argmax, generic everything else.
    Sse2,
    /// x86-64 with AVX2 (only selectable when the real host has AVX2).
    Avx2,
}

impl Host {
    pub fn as_str(&self) -> &'static str {
        match self {
            Host::Generic => "generic",
            Host::Sse2 => "sse2",
            Host::Avx2 => "avx2",
        }
    }
    pub fn all() -> &'static [Host] {
        &[Host::Generic, Host::Sse2, Host::Avx2]
    }
}

pub fn real_host_has_avx2() -> bool {
    std::is_x86_feature_detected!("avx2")
}

struct Reset;
impl Drop for Reset {
    fn drop(&mut self) {
        lightmotif::pli::verif::force_backend(None);
    }
}

/// Run `f` with the dispatcher forced to `host`. Panics (harness error) if AVX2 is requested on a
/// machine without it.
pub fn with_host<T>(host: Host, f: impl FnOnce() -> T) -> T {
    let d = match host {
        Host::Generic => Dispatch::Generic,
        Host::Sse2 => Dispatch::Sse2,
        Host::Avx2 => {
            assert!(real_host_has_avx2(), "HARNESS: avx2 profile needs an AVX2 machine");
            Dispatch::Avx2
        }
    };
    lightmotif::pli::verif::force_backend(Some(d));
    let _reset = Reset;
    f()
}
