pub mod alloc;
pub mod cpu;
pub mod rng;
pub mod stream;
