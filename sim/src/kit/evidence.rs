//! Evidence file `/verif/evidence/<id>.json`, rewritten by every run of a check.

use std::collections::BTreeMap;
use std::collections::BTreeSet;

use serde_json::{json, Value};

use super::runner::{CheckResult, Report};
use super::{Sim, Tier};

pub fn write<S: Sim>(prop: &str, tier: Tier, seed: u64, workers: usize, res: &CheckResult, rep: &Report, extra: Value) {
    let plan = super::runner::plan_of::<S>(prop, tier);
    let distinct_histories = res.hashes.iter().map(|h| h.1).collect::<BTreeSet<_>>().len();
    let mut dims: BTreeMap<String, BTreeMap<String, u64>> = BTreeMap::new();
    let mut probes: BTreeMap<String, u64> = BTreeMap::new();
    for (k, v) in &res.totals.probes {
        if let Some((d, val)) = k.split_once('=') {
            dims.entry(d.to_string()).or_default().insert(val.to_string(), *v);
        } else {
            probes.insert(k.clone(), *v);
        }
    }
    let exhaustive_phases: Vec<&str> = plan.iter().filter(|p| p.exhaustive).map(|p| p.name).collect();
    let all_exhaustive = !plan.is_empty() && plan.iter().all(|p| p.exhaustive);
    let runs = res.hashes.len() as u64 + res.worker_deaths;
    let first_seed = super::runner::run_seed(seed, S::NAME, prop, 0);
    let last_seed = super::runner::run_seed(seed, S::NAME, prop, res.runs_planned.saturating_sub(1));
    let doc = json!({
        "property_id": prop,
        "tier": tier.as_str(),
        "seed": seed,
        "level": S::level(prop),
        "wall_s": res.wall_s,
        "violations": rep.violations,
        "coverage": {
            "evaluations": runs,
            "distinct_nontrivial": res.keys.len(),
            "rule": S::rule(prop),
            "samples": res.samples,
            "exhaustive": all_exhaustive,
            "exhaustive_phases": exhaustive_phases,
            "phases": plan.iter().map(|p| json!({"name": p.name, "runs": p.count, "exhaustive": p.exhaustive})).collect::<Vec<_>>(),
            "runs": runs,
            "runs_planned": res.runs_planned,
            "runs_per_hour": if res.wall_s > 0.0 { (runs as f64 / res.wall_s * 3600.0) as u64 } else { 0 },
            "seeds": {"verif_seed": seed, "first_run_seed": first_seed, "last_run_seed": last_seed,
                      "derivation": "run_seed = mix(VERIF_SEED, fnv(sim), fnv(property), run index)"},
            "sim_time": "n/a - no clock, timer or deadline in the system under test; progress is measured in seam steps",
            "steps": res.totals.steps,
            "trace_events": res.totals.events,
            "faults_fired": res.totals.faults,
            "dimensions": dims,
            "probes": probes,
            "distinct_histories": distinct_histories,
            "tolerated": res.totals.tolerated,
            "allocator": {"arena_allocations": res.totals.allocs, "realloc_moves": res.totals.moves, "arena_not_reset": res.totals.arena_not_reset},
            "workers": workers,
            "worker_deaths": res.worker_deaths,
            "profile": super::runner::profile_name(),
            "components": {"real": S::components(prop).0, "stub": S::components(prop).1},
            "known_findings_hit": rep.known_hits,
            "replay_files": rep.replay_files,
            "extra": extra,
        },
        "assumptions": S::assumptions(prop),
    });
    let name = std::env::var("LMSIM_EVIDENCE_NAME").unwrap_or_else(|_| prop.to_string());
    let mut doc = doc;
    // fold the evidence of the other passes of this check (shipping profile in the thorough tier, Python tier)
    if name == prop {
        for (tag, key) in [("shipping", "shipping_profile_pass"), ("py", "python_tier_pass"), ("asan", "address_sanitizer_pass"), ("dev", "unoptimised_build_pass")] {
            let side = super::runner::verif_root().join("evidence").join(format!("{}.{}.json", prop, tag));
            if let Ok(t) = std::fs::read_to_string(&side) {
                if let Ok(v) = serde_json::from_str::<Value>(&t) {
                    let c = &v["coverage"];
                    doc["coverage"][key] = json!({
                        "evaluations": c["evaluations"], "distinct_nontrivial": c["distinct_nontrivial"],
                        "violations": v["violations"], "wall_s": v["wall_s"], "faults_fired": c["faults_fired"],
                        "probes": c["probes"], "known_findings_hit": c["known_findings_hit"], "rule": c["rule"],
                        "samples": c["samples"].as_array().map(|a| a.iter().take(1).cloned().collect::<Vec<_>>()),
                        "profile": c["profile"],
                    });
                    if let (Some(a), Some(b)) = (doc["violations"].as_u64(), v["violations"].as_u64()) {
                        doc["violations"] = json!(a + b);
                    }
                    doc["coverage"][key]["components"] = c["components"].clone();
                }
                let _ = std::fs::remove_file(&side);
            }
        }
    }
    let path = super::runner::verif_root().join("evidence").join(format!("{}.json", name));
    let _ = std::fs::create_dir_all(path.parent().unwrap());
    std::fs::write(&path, serde_json::to_string_pretty(&doc).unwrap()).expect("HARNESS: cannot write evidence");
}
