//! Simulation kit: PRNG, trace, outcome, panic capture, the `Sim` trait, runner, minimiser,
//! evidence and known-findings handling.

pub mod evidence;
pub mod known;
pub mod prng;
pub mod runner;

use std::cell::RefCell;
use std::collections::BTreeMap;
use std::fmt::Write as _;
use std::panic::{catch_unwind, AssertUnwindSafe};

use serde::de::DeserializeOwned;
use serde::{Deserialize, Serialize};

pub use self::prng::Prng;

pub const DEFAULT_SEED: u64 = 20260926;

#[derive(Clone, Copy, Debug, PartialEq, Eq)]
pub enum Tier {
    Quick,
    Thorough,
}

impl Tier {
    pub fn as_str(&self) -> &'static str {
        match self {
            Tier::Quick => "quick",
            Tier::Thorough => "thorough",
        }
    }
    pub fn parse(s: &str) -> Option<Tier> {
        match s {
            "quick" => Some(Tier::Quick),
            "thorough" => Some(Tier::Thorough),
            _ => None,
        }
    }
}

// --- trace -------------------------------------------------------------------------------------

/// Event trace of one run. Every seam event and every operation result goes in; the FNV-1a hash
/// of the canonical text identifies the history.
pub struct Trace {
    hash: u64,
    keep: bool,
    pub lines: Vec<String>,
    buf: String,
    pub events: u64,
}

impl Trace {
    pub fn new(keep: bool) -> Self {
        Trace {
            hash: 0xcbf2_9ce4_8422_2325,
            keep,
            lines: Vec::new(),
            buf: String::with_capacity(128),
            events: 0,
        }
    }

    #[inline]
    pub fn ev(&mut self, args: std::fmt::Arguments<'_>) {
        self.buf.clear();
        let _ = self.buf.write_fmt(args);
        for b in self.buf.bytes() {
            self.hash ^= b as u64;
            self.hash = self.hash.wrapping_mul(0x0000_0100_0000_01B3);
        }
        self.hash ^= 0x0a;
        self.hash = self.hash.wrapping_mul(0x0000_0100_0000_01B3);
        self.events += 1;
        if self.keep && self.lines.len() < 4000 {
            self.lines.push(self.buf.clone());
        }
    }

    pub fn hash(&self) -> u64 {
        self.hash
    }

    pub fn keeps(&self) -> bool {
        self.keep
    }
}

#[macro_export]
macro_rules! ev {
    ($tr:expr, $($arg:tt)*) => { $tr.ev(format_args!($($arg)*)) };
}

// --- outcome -----------------------------------------------------------------------------------

#[derive(Clone, Debug, Serialize, Deserialize, PartialEq)]
pub struct Violation {
    /// Stable class string, e.g. `panic@lightmotif-io/src/jaspar/mod.rs|attempt to subtract with overflow`.
    pub class: String,
    /// Scenario predicate tags, e.g. `format=jaspar,input=empty`.
    pub tags: String,
    /// Free text for the human reader.
    pub detail: String,
}

impl Violation {
    pub fn new(class: impl Into<String>, tags: impl Into<String>, detail: impl Into<String>) -> Self {
        Violation {
            class: class.into(),
            tags: tags.into(),
            detail: detail.into(),
        }
    }
    pub fn signature(&self) -> String {
        format!("{}|{}", self.class, self.tags)
    }
}

pub type Counters = BTreeMap<&'static str, u64>;

pub struct Outcome {
    pub trace: Trace,
    /// Seam steps (fill_buf / consume / read / draw / alloc / op).
    pub steps: u64,
    /// "This rare condition was hit" counters.
    pub probes: Counters,
    /// Fault kinds, counted when they actually fire.
    pub faults: Counters,
    /// Coverage key if this run is non-trivial by the simulator's rule.
    pub cov: Option<String>,
    /// Don't-care decisions (floating-point band etc.).
    pub tolerated: u64,
    pub violation: Option<Violation>,
    /// Scratch space handed from the stream seam to the oracle (chunk boundaries that occurred).
    pub scratch_boundaries: Vec<usize>,
}

impl Outcome {
    pub fn new(keep_trace: bool) -> Self {
        Outcome {
            trace: Trace::new(keep_trace),
            steps: 0,
            probes: Counters::new(),
            faults: Counters::new(),
            cov: None,
            tolerated: 0,
            violation: None,
            scratch_boundaries: Vec::new(),
        }
    }
    #[inline]
    pub fn probe(&mut self, name: &'static str) {
        *self.probes.entry(name).or_insert(0) += 1;
    }
    #[inline]
    pub fn fault(&mut self, name: &'static str) {
        *self.faults.entry(name).or_insert(0) += 1;
    }
    /// Record the first violation only.
    pub fn violate(&mut self, v: Violation) {
        if self.violation.is_none() {
            ev!(self.trace, "VIOLATION {} [{}] {}", v.class, v.tags, v.detail);
            self.violation = Some(v);
        }
    }
    pub fn failed(&self) -> bool {
        self.violation.is_some()
    }
}

// --- panic capture -----------------------------------------------------------------------------

thread_local! {
    static LAST_PANIC: RefCell<Option<(String, String)>> = const { RefCell::new(None) };
    static IN_SUT: RefCell<bool> = const { RefCell::new(false) };
}

/// Install the panic hook once per process: inside `sut()` it records `(location file, message)`
/// silently; outside it prints (a harness panic) and lets the default behaviour proceed.
pub fn install_panic_hook() {
    let default = std::panic::take_hook();
    std::panic::set_hook(Box::new(move |info| {
        let in_sut = IN_SUT.with(|f| *f.borrow());
        if in_sut {
            let prev = crate::seam::alloc::suspend();
            let file = info
                .location()
                .map(|l| l.file().to_string())
                .unwrap_or_else(|| "?".to_string());
            let msg = if let Some(s) = info.payload().downcast_ref::<&str>() {
                s.to_string()
            } else if let Some(s) = info.payload().downcast_ref::<String>() {
                s.clone()
            } else {
                "<non-string panic payload>".to_string()
            };
            LAST_PANIC.with(|p| *p.borrow_mut() = Some((file, msg)));
            crate::seam::alloc::restore(prev);
        } else {
            default(info);
        }
    }));
}

/// Normalise a source path so that it is relative to the repository (or names the dependency).
fn norm_path(p: &str) -> String {
    if let Some(i) = p.find("/repo/") {
        return p[i + 6..].to_string();
    }
    if let Some(i) = p.find("/registry/src/") {
        let rest = &p[i + 14..];
        if let Some(j) = rest.find('/') {
            return format!("dep:{}", &rest[j + 1..]);
        }
    }
    if let Some(i) = p.find("/library/") {
        return format!("std:{}", &p[i + 9..]);
    }
    p.to_string()
}

/// Replace runs of digits by `#` so that messages with indices compare equal.
fn norm_msg(m: &str) -> String {
    // messages that quote input text ("... of `<text>`", "... inside 'x' ...") are cut before the quote
    let m = match m.find(" of `") {
        Some(i) => &m[..i],
        None => m,
    };
    let m = match m.find("; it is inside") {
        Some(i) => &m[..i],
        None => m,
    };
    let mut out = String::with_capacity(m.len());
    let mut in_digits = false;
    for c in m.chars().take(120) {
        let c = if c.is_ascii() { c } else { '?' };
        if c.is_ascii_digit() {
            if !in_digits {
                out.push('#');
            }
            in_digits = true;
        } else {
            in_digits = false;
            out.push(if c == '\n' { ' ' } else { c });
        }
    }
    out
}

#[derive(Debug)]
pub struct Panicked {
    pub file: String,
    pub msg: String,
}

impl Panicked {
    pub fn class(&self) -> String {
        format!("panic@{}|{}", self.file, norm_msg(&self.msg))
    }
}

/// Run one call into the system under test, alone, under `catch_unwind`. Harness logic stays
/// outside so that a harness bug can never be reported as a library panic.
pub fn sut<T>(f: impl FnOnce() -> T) -> Result<T, Panicked> {
    IN_SUT.with(|x| *x.borrow_mut() = true);
    let prev = crate::seam::alloc::enter();
    let r = catch_unwind(AssertUnwindSafe(f));
    crate::seam::alloc::restore(prev);
    IN_SUT.with(|x| *x.borrow_mut() = false);
    match r {
        Ok(v) => Ok(v),
        Err(payload) => {
            // Drop the payload outside of any allocator scope concerns.
            drop(payload);
            let (file, msg) = LAST_PANIC
                .with(|p| p.borrow_mut().take())
                .unwrap_or_else(|| ("?".to_string(), "?".to_string()));
            if file.contains("/verif/") && !msg.contains("SIM-BUDGET") && !msg.contains("SIM-CONTRACT") {
                eprintln!("HARNESS: panic in harness code at {}: {}", file, msg);
                std::process::exit(2);
            }
            Err(Panicked {
                file: norm_path(&file),
                msg,
            })
        }
    }
}

// --- the Sim trait -----------------------------------------------------------------------------

#[derive(Clone, Debug)]
pub struct Phase {
    pub name: &'static str,
    pub count: u64,
    /// True when this phase enumerates a finite space completely.
    pub exhaustive: bool,
}

pub trait Sim {
    type Sc: Serialize + DeserializeOwned + Clone;

    const NAME: &'static str;

    /// Phases (name, number of runs) for a property and tier.
    fn plan(prop: &str, tier: Tier) -> Vec<Phase>;

    /// Build the explicit scenario of run `idx` of phase `phase`. All randomness comes from `rng`.
    fn generate(prop: &str, tier: Tier, phase: &str, idx: u64, rng: &mut Prng) -> Self::Sc;

    /// Execute the scenario against the real code. Pure function of the scenario.
    fn run(prop: &str, sc: &Self::Sc, keep_trace: bool) -> Outcome;

    /// Simpler variants of a scenario, most aggressive first.
    fn shrink(sc: &Self::Sc) -> Vec<Self::Sc>;

    /// Size measure used to pick the smallest instance and to report minimisation.
    fn size(sc: &Self::Sc) -> BTreeMap<&'static str, u64>;

    /// Whether this scenario must run in a child process (guard-page allocator: traps kill).
    fn needs_child(_sc: &Self::Sc) -> bool {
        false
    }

    /// Description of how cases are generated and what makes one non-trivial / distinct.
    fn rule(prop: &str) -> String;

    /// Probes that the generator guarantees by construction; zero => vacuous run (exit 2).
    fn required_probes(_prop: &str, _tier: Tier) -> Vec<&'static str> {
        Vec::new()
    }

    fn level(prop: &str) -> &'static str {
        let _ = prop;
        "exploration"
    }

    fn assumptions(prop: &str) -> Vec<String>;

    /// Scenario predicate tags for violations whose class comes from the death of a worker (trap, abort,
    /// hang): the child cannot report them itself.
    fn death_tags(_sc: &Self::Sc) -> String {
        String::new()
    }

    /// Which components ran real code and which ran a stub: `(real, stub)`.
    fn components(_prop: &str) -> (Vec<String>, Vec<String>) {
        (
            vec!["lightmotif (all modules reached by the workload; SSE2 / AVX2 / generic kernels per simulated host)".into()],
            vec!["allocator (SimAlloc)".into(), "CPU probe (verif-hooks override)".into()],
        )
    }
}
