//! Parent / worker process model, minimiser, replay.
//!
//! The parent splits the run range over N single-threaded worker processes (re-executions of this
//! binary). A worker announces each run (`B <idx>`) before starting it, so that a trap or abort
//! is attributed to the run in flight. Run `idx` is a pure function of (VERIF_SEED, sim, property,
//! idx): identical whichever worker executes it and however many workers there are.

use std::collections::{BTreeMap, BTreeSet};
use std::io::{BufRead, BufReader, Write};
use std::process::{Child, Command, Stdio};
use std::sync::atomic::{AtomicBool, AtomicU64, Ordering};
use std::sync::Arc;
use std::time::{Duration, Instant};

use serde::{Deserialize, Serialize};
use serde_json::{json, Value};

use super::prng::{mix, name_hash, Prng};
use super::{known, Outcome, Phase, Sim, Tier, Violation};
use crate::seam::alloc;

pub fn run_seed(seed: u64, sim: &str, prop: &str, idx: u64) -> u64 {
    mix(&[seed, name_hash(sim), name_hash(prop), idx])
}

pub fn profile_name() -> &'static str {
    // the unoptimised (cargo dev profile) pass announces itself through the environment
    if std::env::var("LMSIM_PROFILE_NAME").map(|v| v == "unoptimised").unwrap_or(false) {
        return "unoptimised";
    }
    if cfg!(debug_assertions) {
        "checked"
    } else {
        "shipping"
    }
}

/// The plan of a check, optionally restricted to the phases named in `LMSIM_PHASES` (comma separated).
pub fn plan_of<S: Sim>(prop: &str, tier: Tier) -> Vec<Phase> {
    let plan = S::plan(prop, tier);
    match std::env::var("LMSIM_PHASES") {
        Ok(list) if !list.trim().is_empty() => {
            let names: Vec<&str> = list.split(',').map(|x| x.trim()).collect();
            plan.into_iter().filter(|p| names.contains(&p.name)).collect()
        }
        _ => plan,
    }
}

fn locate(plan: &[Phase], idx: u64) -> (&Phase, u64) {
    let mut base = 0;
    for p in plan {
        if idx < base + p.count {
            return (p, idx - base);
        }
        base += p.count;
    }
    panic!("HARNESS: run index {} outside the plan", idx);
}

pub fn total_runs(plan: &[Phase]) -> u64 {
    plan.iter().map(|p| p.count).sum()
}

pub fn gen_scenario<S: Sim>(prop: &str, tier: Tier, seed: u64, idx: u64) -> S::Sc {
    let plan = plan_of::<S>(prop, tier);
    gen_scenario_with::<S>(&plan, prop, tier, seed, idx)
}

pub fn gen_scenario_with<S: Sim>(plan: &[Phase], prop: &str, tier: Tier, seed: u64, idx: u64) -> S::Sc {
    let (phase, local) = locate(plan, idx);
    let mut rng = Prng::new(run_seed(seed, S::NAME, prop, idx));
    S::generate(prop, tier, phase.name, local, &mut rng)
}

// --- worker ------------------------------------------------------------------------------------

#[derive(Serialize, Deserialize, Default, Debug, Clone)]
pub struct Totals {
    pub runs: u64,
    pub steps: u64,
    pub events: u64,
    pub tolerated: u64,
    pub probes: BTreeMap<String, u64>,
    pub faults: BTreeMap<String, u64>,
    pub allocs: u64,
    pub moves: u64,
    pub arena_not_reset: u64,
}

impl Totals {
    fn absorb(&mut self, o: &Outcome) {
        self.runs += 1;
        self.steps += o.steps;
        self.events += o.trace.events;
        self.tolerated += o.tolerated;
        for (k, v) in &o.probes {
            *self.probes.entry(k.to_string()).or_insert(0) += v;
        }
        for (k, v) in &o.faults {
            *self.faults.entry(k.to_string()).or_insert(0) += v;
        }
    }
    fn merge(&mut self, t: &Totals) {
        self.runs += t.runs;
        self.steps += t.steps;
        self.events += t.events;
        self.tolerated += t.tolerated;
        self.allocs += t.allocs;
        self.moves += t.moves;
        self.arena_not_reset += t.arena_not_reset;
        for (k, v) in &t.probes {
            *self.probes.entry(k.clone()).or_insert(0) += v;
        }
        for (k, v) in &t.faults {
            *self.faults.entry(k.clone()).or_insert(0) += v;
        }
    }
}

/// Shared cell through which a worker tells the parent which run is in flight (no syscall per
/// run): `[current run index or u64::MAX, number of completed runs]`.
pub struct Cell {
    ptr: *mut u64,
}
unsafe impl Send for Cell {}

impl Cell {
    pub fn open(path: &str) -> Cell {
        use std::os::unix::io::AsRawFd;
        let f = std::fs::OpenOptions::new()
            .read(true)
            .write(true)
            .open(path)
            .expect("HARNESS: cannot open run cell");
        let p = unsafe {
            libc::mmap(
                std::ptr::null_mut(),
                4096,
                libc::PROT_READ | libc::PROT_WRITE,
                libc::MAP_SHARED,
                f.as_raw_fd(),
                0,
            )
        };
        assert!(p != libc::MAP_FAILED, "HARNESS: cannot map run cell");
        Cell { ptr: p as *mut u64 }
    }
    #[inline]
    pub fn set(&self, cur: u64, done: u64) {
        unsafe {
            std::ptr::write_volatile(self.ptr, cur);
            std::ptr::write_volatile(self.ptr.add(1), done);
        }
    }
    pub fn get(&self) -> (u64, u64) {
        unsafe { (std::ptr::read_volatile(self.ptr), std::ptr::read_volatile(self.ptr.add(1))) }
    }
}

/// Worker entry: runs `start..end`, prints protocol lines on stdout (buffered; whole lines only).
pub fn worker_main<S: Sim>(prop: &str, tier: Tier, seed: u64, start: u64, end: u64, samples: u64, cell_path: &str, dump: bool, stride: u64) {
    super::install_panic_hook();
    alloc::install_trap_handler();
    let cell = Cell::open(cell_path);
    let hang_test: Option<u64> = std::env::var("LMSIM_TEST_HANG").ok().and_then(|v| v.parse().ok());
    let plan = plan_of::<S>(prop, tier);
    let out = std::io::stdout();
    let mut out = out.lock();
    let mut buf = String::with_capacity(1 << 16);
    let mut totals = Totals::default();
    let mut seen_keys: BTreeSet<String> = BTreeSet::new();
    let mut violations_sent = 0u32;
    let mut done = 0u64;
    use std::fmt::Write as _;
    for v in start..end {
        let idx = v * stride;
        let sc = gen_scenario_with::<S>(&plan, prop, tier, seed, idx);
        cell.set(v, done);
        alloc::CURRENT_RUN.store(idx, Ordering::Relaxed);
        if hang_test == Some(idx) {
            // self-test of the parent's watchdog (`LMSIM_TEST_HANG=<run>`): a run that never finishes
            loop {
                std::thread::sleep(std::time::Duration::from_secs(3600));
            }
        }
        let o = S::run(prop, &sc, false);
        done += 1;
        cell.set(u64::MAX, done);
        totals.absorb(&o);
        if dump {
            let cls = o.violation.as_ref().map(|v| v.signature()).unwrap_or_else(|| "-".to_string());
            let _ = writeln!(buf, "R {} {:016x} {}", idx, o.trace.hash(), cls.replace('\n', " "));
        } else {
            let _ = writeln!(buf, "H {:016x}", o.trace.hash());
        }
        if let Some(k) = &o.cov {
            if !seen_keys.contains(k) {
                seen_keys.insert(k.clone());
                let _ = writeln!(buf, "K {}", k);
            }
        }
        if v - start < samples {
            let _ = writeln!(buf, "S {}", json!({"run": idx, "scenario": sc}));
        }
        if let Some(v) = &o.violation {
            if violations_sent < 40 {
                violations_sent += 1;
                let _ = writeln!(
                    buf,
                    "V {}",
                    json!({"run": idx, "violation": v, "scenario": sc, "size": S::size(&sc)})
                );
            } else {
                let _ = writeln!(buf, "W {} {}", idx, v.signature().replace('\n', " "));
            }
        }
        if buf.len() > (1 << 15) {
            let _ = out.write_all(buf.as_bytes());
            let _ = out.flush();
            buf.clear();
        }
    }
    totals.allocs = alloc::ALLOCS.load(Ordering::Relaxed);
    totals.moves = alloc::MOVES.load(Ordering::Relaxed);
    totals.arena_not_reset = alloc::NOT_RESET.load(Ordering::Relaxed);
    let _ = writeln!(buf, "T {}", serde_json::to_string(&totals).unwrap());
    let _ = out.write_all(buf.as_bytes());
    let _ = out.flush();
}

/// Execute one scenario given as JSON (file) and print `O <json>`; used for child-process replay
/// and child-process minimisation.
pub fn exec_main<S: Sim>(prop: &str, path: &str, keep_trace: bool) {
    super::install_panic_hook();
    alloc::install_trap_handler();
    let text = std::fs::read_to_string(path).expect("HARNESS: cannot read scenario file");
    let v: Value = serde_json::from_str(&text).expect("HARNESS: scenario file is not JSON");
    let scv = if v.get("scenario").is_some() { v["scenario"].clone() } else { v };
    let sc: S::Sc = serde_json::from_value(scv).expect("HARNESS: scenario does not deserialize");
    alloc::CURRENT_RUN.store(0, Ordering::Relaxed);
    println!("B 0");
    let _ = std::io::stdout().flush();
    let o = S::run(prop, &sc, keep_trace);
    println!(
        "O {}",
        json!({"hash": format!("{:016x}", o.trace.hash()), "violation": o.violation, "trace": o.trace.lines, "steps": o.steps})
    );
}

// --- parent ------------------------------------------------------------------------------------

#[derive(Clone, Debug)]
pub struct Found {
    pub run: u64,
    pub violation: Violation,
    pub scenario: Value,
    pub size: BTreeMap<String, u64>,
}

#[derive(Default)]
struct WorkerAgg {
    hashes: Vec<(u64, u64)>,
    keys: BTreeSet<String>,
    samples: Vec<Value>,
    found: Vec<Found>,
    extra_sigs: BTreeMap<String, u64>,
    totals: Totals,
    dump: Vec<(u64, u64, String)>,
    died_runs: u64,
    trap_line: Option<String>,
    finished: bool,
}

pub struct CheckResult {
    pub totals: Totals,
    pub hashes: Vec<(u64, u64)>,
    pub dump: Vec<(u64, u64, String)>,
    pub keys: BTreeSet<String>,
    pub samples: Vec<Value>,
    pub found: Vec<Found>,
    pub extra_sigs: BTreeMap<String, u64>,
    pub wall_s: f64,
    pub runs_planned: u64,
    pub worker_deaths: u64,
}

fn spawn_worker(sim: &str, prop: &str, tier: Tier, seed: u64, start: u64, end: u64, samples: u64, cell: &str, dump: bool, stride: u64) -> Child {
    let exe = std::env::current_exe().expect("HARNESS: current_exe");
    Command::new(exe)
        .args([
            "worker",
            sim,
            prop,
            tier.as_str(),
            &seed.to_string(),
            &start.to_string(),
            &end.to_string(),
            &samples.to_string(),
            cell,
            if dump { "dump" } else { "nodump" },
            &stride.to_string(),
        ])
        .stdin(Stdio::null())
        .stdout(Stdio::piped())
        .stderr(Stdio::inherit())
        .spawn()
        .expect("HARNESS: cannot spawn worker")
}

fn parse_line(agg: &mut WorkerAgg, line: &str) {
    let (tag, rest) = match line.split_once(' ') {
        Some(x) => x,
        None => return,
    };
    match tag {
        "H" => {
            if let Ok(h) = u64::from_str_radix(rest.trim(), 16) {
                agg.hashes.push((u64::MAX, h));
            }
        }
        "R" => {
            let mut it = rest.splitn(3, ' ');
            let idx: u64 = it.next().and_then(|s| s.parse().ok()).unwrap_or(u64::MAX);
            let h = it.next().and_then(|s| u64::from_str_radix(s, 16).ok()).unwrap_or(0);
            agg.hashes.push((idx, h));
            if let Some(c) = it.next() {
                agg.dump.push((idx, h, c.to_string()));
            }
        }
        "K" => {
            agg.keys.insert(rest.to_string());
        }
        "S" => {
            if let Ok(v) = serde_json::from_str::<Value>(rest) {
                agg.samples.push(v);
            }
        }
        "V" => {
            if let Ok(v) = serde_json::from_str::<Value>(rest) {
                let viol: Violation = serde_json::from_value(v["violation"].clone()).unwrap();
                let size: BTreeMap<String, u64> = serde_json::from_value(v["size"].clone()).unwrap_or_default();
                agg.found.push(Found {
                    run: v["run"].as_u64().unwrap(),
                    violation: viol,
                    scenario: v["scenario"].clone(),
                    size,
                });
            }
        }
        "W" => {
            if let Some((_, sig)) = rest.split_once(' ') {
                *agg.extra_sigs.entry(sig.to_string()).or_insert(0) += 1;
            }
        }
        "T" => {
            if let Ok(t) = serde_json::from_str::<Totals>(rest) {
                agg.totals = t;
                agg.finished = true;
            }
        }
        "TRAP" => agg.trap_line = Some(line.to_string()),
        _ => {}
    }
}

fn new_cell_file() -> String {
    let n = TMP_COUNTER.fetch_add(1, Ordering::Relaxed);
    let path = scratch_dir().join(format!("cell-{}-{}", std::process::id(), n));
    let f = std::fs::File::create(&path).expect("HARNESS: cannot create run cell");
    f.set_len(4096).expect("HARNESS: cannot size run cell");
    path.to_string_lossy().to_string()
}

/// Run one range in a worker, restarting after deaths; returns the aggregate.
fn drive_range<S: Sim>(
    prop: &str,
    tier: Tier,
    seed: u64,
    mut start: u64,
    end: u64,
    samples: u64,
    deaths: &AtomicU64,
    dump: bool,
    stride: u64,
) -> WorkerAgg {
    let mut total = WorkerAgg::default();
    let mut restarts = 0;
    while start < end {
        let cell_path = new_cell_file();
        let cell = Cell::open(&cell_path);
        cell.set(u64::MAX, 0);
        let mut child = spawn_worker(S::NAME, prop, tier, seed, start, end, if restarts == 0 { samples } else { 0 }, &cell_path, dump, stride);
        let stdout = child.stdout.take().unwrap();
        let pid = child.id();
        // watchdog: kill the child if the run in flight does not change for 120 s
        let done_flag = Arc::new(AtomicBool::new(false));
        let df = done_flag.clone();
        let wd_cell = Cell::open(&cell_path);
        let wd_cell_ptr = wd_cell.ptr as usize;
        let wd = std::thread::spawn(move || {
            let c = Cell { ptr: wd_cell_ptr as *mut u64 };
            let mut last = c.get();
            let mut since = Instant::now();
            while !df.load(Ordering::Relaxed) {
                std::thread::park_timeout(Duration::from_millis(250));
                let now = c.get();
                if now != last {
                    last = now;
                    since = Instant::now();
                } else if since.elapsed() > Duration::from_secs(120) {
                    unsafe { libc::kill(pid as i32, libc::SIGKILL) };
                    return true;
                }
            }
            false
        });
        let mut agg = WorkerAgg::default();
        let reader = BufReader::with_capacity(1 << 16, stdout);
        for line in reader.split(b'\n') {
            let line = match line {
                Ok(l) => l,
                Err(_) => break,
            };
            let line = String::from_utf8_lossy(&line);
            parse_line(&mut agg, &line);
        }
        let status = child.wait().expect("HARNESS: wait");
        done_flag.store(true, Ordering::Relaxed);
        wd.thread().unpark();
        let hung = wd.join().unwrap_or(false);
        let (in_flight, _done) = cell.get();
        let _ = std::fs::remove_file(&cell_path);
        // merge
        total.hashes.append(&mut agg.hashes);
        total.dump.append(&mut agg.dump);
        total.keys.append(&mut agg.keys);
        total.samples.append(&mut agg.samples);
        total.found.append(&mut agg.found);
        for (k, v) in std::mem::take(&mut agg.extra_sigs) {
            *total.extra_sigs.entry(k).or_insert(0) += v;
        }
        if agg.finished && status.success() {
            total.totals.merge(&agg.totals);
            break;
        }
        // a panic that escaped in the worker is a harness bug (library panics are caught)
        if status.code() == Some(101) && agg.trap_line.is_none() {
            eprintln!("HARNESS: worker for {}..{} panicked outside the system under test (run in flight: {})", start, end, in_flight);
            std::process::exit(2);
        }
        // the worker died: attribute to the run in flight
        deaths.fetch_add(1, Ordering::Relaxed);
        let culprit = if in_flight != u64::MAX && in_flight >= start && in_flight < end {
            in_flight
        } else {
            eprintln!(
                "HARNESS: worker for {}..{} died outside a run (status {:?}, cell {})",
                start, end, status, in_flight
            );
            std::process::exit(2);
        };
        let class = if hung {
            "hang".to_string()
        } else if let Some(t) = &agg.trap_line {
            let sig = t.split(" sig=").nth(1).and_then(|s| s.split(' ').next()).unwrap_or("?");
            let heap = t.split(" heap=").nth(1).unwrap_or("?").trim();
            format!("trap(sig{},{})", sig, heap)
        } else {
            use std::os::unix::process::ExitStatusExt;
            match status.signal() {
                Some(s) => format!("abort(signal {})", s),
                None => format!("abort(exit {})", status.code().unwrap_or(-1)),
            }
        };
        let sc = gen_scenario::<S>(prop, tier, seed, culprit * stride);
        total.found.push(Found {
            run: culprit * stride,
            violation: Violation::new(class, "", agg.trap_line.clone().unwrap_or_default()),
            scenario: serde_json::to_value(&sc).unwrap(),
            size: S::size(&sc).into_iter().map(|(k, v)| (k.to_string(), v)).collect(),
        });
        total.died_runs += 1;
        start = culprit + 1;
        restarts += 1;
        if restarts > 200 {
            eprintln!("HARNESS: too many worker deaths in one range; giving up on {}..{}", start, end);
            break;
        }
    }
    total
}

pub fn run_check<S: Sim>(prop: &str, tier: Tier, seed: u64, workers: usize, limit: Option<u64>, dump: bool, spread: bool) -> CheckResult {
    let plan = plan_of::<S>(prop, tier);
    let mut total = total_runs(&plan);
    let mut stride = 1u64;
    if let Some(l) = limit {
        if spread && l > 0 && total > l {
            stride = total / l;
        }
        total = total.min(l);
    }
    let t0 = Instant::now();
    let workers = workers.max(1).min(total.max(1) as usize);
    let deaths = Arc::new(AtomicU64::new(0));
    // interleaved block assignment keeps all workers busy across phases of different cost
    let block = ((total + workers as u64 * 8 - 1) / (workers as u64 * 8)).max(1);
    let next_block = Arc::new(AtomicU64::new(0));
    let mut handles = Vec::new();
    for _wi in 0..workers {
        let prop = prop.to_string();
        let deaths = deaths.clone();
        let next_block = next_block.clone();
        handles.push(std::thread::spawn(move || {
            let mut acc = WorkerAgg::default();
            loop {
                let b = next_block.fetch_add(1, Ordering::Relaxed);
                let start = b * block;
                if start >= total {
                    break;
                }
                let end = (start + block).min(total);
                let samples = 0;
                let mut agg = drive_range::<S>(&prop, tier, seed, start, end, samples, &deaths, dump, stride);
                acc.hashes.append(&mut agg.hashes);
                acc.dump.append(&mut agg.dump);
                acc.died_runs += agg.died_runs;
                acc.keys.append(&mut agg.keys);
                acc.samples.append(&mut agg.samples);
                acc.found.append(&mut agg.found);
                for (k, v) in agg.extra_sigs {
                    *acc.extra_sigs.entry(k).or_insert(0) += v;
                }
                acc.totals.merge(&agg.totals);
            }
            acc
        }));
    }
    let mut res = CheckResult {
        totals: Totals::default(),
        hashes: Vec::new(),
        dump: Vec::new(),
        keys: BTreeSet::new(),
        samples: Vec::new(),
        found: Vec::new(),
        extra_sigs: BTreeMap::new(),
        wall_s: 0.0,
        runs_planned: total,
        worker_deaths: 0,
    };
    for h in handles {
        let mut a = h.join().expect("HARNESS: driver thread panicked");
        res.totals.merge(&a.totals);
        res.hashes.append(&mut a.hashes);
        res.dump.append(&mut a.dump);
        res.keys.append(&mut a.keys);
        res.samples.append(&mut a.samples);
        res.found.append(&mut a.found);
        for (k, v) in a.extra_sigs {
            *res.extra_sigs.entry(k).or_insert(0) += v;
        }
    }
    res.hashes.sort_unstable();
    res.dump.sort();
    res.found.sort_by_key(|f| f.run);
    // samples are written out by the parent itself (generation is a pure function of the seed and the run
    // index), so that they never depend on which worker survived
    res.samples.clear();
    if total > 0 {
        let mut picks = vec![0u64, (total / 2) * stride, (total - 1) * stride];
        picks.dedup();
        for idx in picks {
            let sc = gen_scenario_with::<S>(&plan, prop, tier, seed, idx);
            res.samples.push(json!({"run": idx, "scenario": sc}));
        }
    }
    res.worker_deaths = deaths.load(Ordering::Relaxed);
    res.wall_s = t0.elapsed().as_secs_f64();
    res
}

// --- executing one scenario (in-process or child) ------------------------------------------------

pub struct ExecResult {
    pub violation: Option<Violation>,
    pub trace: Vec<String>,
    pub hash: String,
}

static TMP_COUNTER: AtomicU64 = AtomicU64::new(0);

fn scratch_dir() -> std::path::PathBuf {
    let d = verif_root().join("replays").join(".scratch");
    let _ = std::fs::create_dir_all(&d);
    d
}

pub fn verif_root() -> std::path::PathBuf {
    if let Ok(r) = std::env::var("VERIF_ROOT") {
        return r.into();
    }
    // binary lives in <root>/sim/target/<profile>/lmsim
    let exe = std::env::current_exe().unwrap();
    let mut p = exe.as_path();
    for _ in 0..4 {
        p = p.parent().unwrap_or(p);
    }
    p.to_path_buf()
}

pub fn exec_in_child(sim: &str, prop: &str, scenario: &Value, keep_trace: bool) -> ExecResult {
    let n = TMP_COUNTER.fetch_add(1, Ordering::Relaxed);
    let path = scratch_dir().join(format!("exec-{}-{}.json", std::process::id(), n));
    std::fs::write(&path, serde_json::to_vec(&json!({"scenario": scenario})).unwrap()).expect("HARNESS: write scratch");
    let exe = std::env::current_exe().unwrap();
    let mut child = Command::new(exe)
        .args(["exec", sim, prop, path.to_str().unwrap(), if keep_trace { "trace" } else { "notrace" }])
        .stdin(Stdio::null())
        .stdout(Stdio::piped())
        .stderr(Stdio::inherit())
        .spawn()
        .expect("HARNESS: cannot spawn exec child");
    // read stdout in a thread; give the child 150 s (a single run takes milliseconds), then kill it: hang
    let mut stdout = child.stdout.take().unwrap();
    let reader = std::thread::spawn(move || {
        let mut buf = Vec::new();
        let _ = std::io::Read::read_to_end(&mut stdout, &mut buf);
        buf
    });
    let t0 = Instant::now();
    let mut hung = false;
    let status = loop {
        match child.try_wait() {
            Ok(Some(st)) => break st,
            Ok(None) => {
                if t0.elapsed() > Duration::from_secs(150) {
                    let _ = child.kill();
                    hung = true;
                    break child.wait().expect("HARNESS: wait");
                }
                std::thread::sleep(Duration::from_millis(5));
            }
            Err(_) => break child.wait().expect("HARNESS: wait"),
        }
    };
    let stdout_bytes = reader.join().unwrap_or_default();
    struct Out {
        stdout: Vec<u8>,
        status: std::process::ExitStatus,
    }
    let out = Out { stdout: stdout_bytes, status };
    let _ = std::fs::remove_file(&path);
    if hung {
        return ExecResult {
            violation: Some(Violation::new("hang", "", "no result within 150 s")),
            trace: Vec::new(),
            hash: String::new(),
        };
    }
    let text = String::from_utf8_lossy(&out.stdout);
    for line in text.lines() {
        if let Some(rest) = line.strip_prefix("O ") {
            let v: Value = serde_json::from_str(rest).expect("HARNESS: bad O line");
            let violation: Option<Violation> = serde_json::from_value(v["violation"].clone()).unwrap_or(None);
            let trace: Vec<String> = serde_json::from_value(v["trace"].clone()).unwrap_or_default();
            return ExecResult {
                violation,
                trace,
                hash: v["hash"].as_str().unwrap_or("").to_string(),
            };
        }
    }
    // no O line: the child died
    let trap = text.lines().find(|l| l.starts_with("TRAP "));
    let class = if let Some(t) = trap {
        let sig = t.split(" sig=").nth(1).and_then(|s| s.split(' ').next()).unwrap_or("?");
        let heap = t.split(" heap=").nth(1).unwrap_or("?").trim();
        format!("trap(sig{},{})", sig, heap)
    } else {
        use std::os::unix::process::ExitStatusExt;
        match out.status.signal() {
            Some(s) => format!("abort(signal {})", s),
            None => format!("abort(exit {})", out.status.code().unwrap_or(-1)),
        }
    };
    ExecResult {
        violation: Some(Violation::new(class, "", trap.unwrap_or("").to_string())),
        trace: Vec::new(),
        hash: String::new(),
    }
}

fn class_needs_child(class: &str) -> bool {
    class.starts_with("trap") || class.starts_with("abort") || class == "hang"
}

pub fn exec_any<S: Sim>(prop: &str, sc: &S::Sc, child: bool, keep_trace: bool) -> ExecResult {
    if child || S::needs_child(sc) {
        exec_in_child(S::NAME, prop, &serde_json::to_value(sc).unwrap(), keep_trace)
    } else {
        let o = S::run(prop, sc, keep_trace);
        ExecResult {
            hash: format!("{:016x}", o.trace.hash()),
            violation: o.violation,
            trace: o.trace.lines,
        }
    }
}

// --- minimiser ---------------------------------------------------------------------------------

pub struct Minimised<Sc> {
    pub scenario: Sc,
    pub violation: Violation,
    pub executions: u64,
}

pub fn minimise<S: Sim>(prop: &str, sc: S::Sc, v: Violation) -> Minimised<S::Sc> {
    let child = class_needs_child(&v.class);
    if v.class == "hang" {
        // every candidate would cost a full watchdog period: report the scenario as found
        return Minimised { scenario: sc, violation: v, executions: 0 };
    }
    let t0 = Instant::now();
    let mut cur = sc;
    let mut cur_v = v;
    let mut execs = 0u64;
    let budget_execs = if child { 400 } else { 20_000 };
    'outer: loop {
        let cands = S::shrink(&cur);
        for cand in cands {
            if execs >= budget_execs || t0.elapsed() > Duration::from_secs(90) {
                break 'outer;
            }
            execs += 1;
            let r = exec_any::<S>(prop, &cand, child, false);
            if let Some(v2) = r.violation {
                if v2.class == cur_v.class {
                    cur = cand;
                    cur_v = v2;
                    continue 'outer;
                }
            }
        }
        break;
    }
    Minimised {
        scenario: cur,
        violation: cur_v,
        executions: execs,
    }
}

// --- reporting ---------------------------------------------------------------------------------

pub struct Report {
    pub violations: u64,
    pub known_hits: Vec<String>,
    pub replay_files: Vec<String>,
    pub harness_error: bool,
}

/// Group, minimise, replay-verify and report what the workers found.
pub fn report<S: Sim>(prop: &str, seed: u64, res: &CheckResult) -> Report {
    super::install_panic_hook();
    let known = known::load();
    let mut rep = Report {
        violations: 0,
        known_hits: Vec::new(),
        replay_files: Vec::new(),
        harness_error: false,
    };
    // group by original signature, keep the smallest instance of each
    let mut groups: BTreeMap<String, (&Found, u64)> = BTreeMap::new();
    for f in &res.found {
        let mut sig = f.violation.signature();
        if class_needs_child(&f.violation.class) && f.violation.tags.is_empty() {
            if let Ok(sc) = serde_json::from_value::<S::Sc>(f.scenario.clone()) {
                sig = format!("{}|{}", f.violation.class, S::death_tags(&sc));
            }
        }
        let len = serde_json::to_string(&f.scenario).map(|s| s.len()).unwrap_or(0);
        match groups.get_mut(&sig) {
            Some((best, count)) => {
                *count += 1;
                let blen = serde_json::to_string(&best.scenario).map(|s| s.len()).unwrap_or(0);
                if len < blen {
                    *best = f;
                }
            }
            None => {
                groups.insert(sig, (f, 1));
            }
        }
    }
    let mut reported_min_sigs: BTreeSet<String> = BTreeSet::new();
    let mut minimised_count = 0;
    for (sig, (f, count)) in groups.iter() {
        let sc: S::Sc = match serde_json::from_value(f.scenario.clone()) {
            Ok(s) => s,
            Err(e) => {
                eprintln!("HARNESS: scenario of run {} does not deserialize: {}", f.run, e);
                rep.harness_error = true;
                continue;
            }
        };
        // confirm first (fresh process; up to three attempts), then minimise
        let mut confirm = exec_in_child(S::NAME, prop, &f.scenario, false);
        let mut confirmed = confirm.violation.as_ref().map(|v| v.class == f.violation.class).unwrap_or(false);
        for _ in 0..2 {
            if confirmed {
                break;
            }
            confirm = exec_in_child(S::NAME, prop, &f.scenario, false);
            confirmed = confirm.violation.as_ref().map(|v| v.class == f.violation.class).unwrap_or(false);
        }
        if !confirmed {
            eprintln!(
                "HARNESS: violation of run {} ({}) did not reproduce in a fresh process (got {:?}) - determinism bug",
                f.run,
                sig,
                confirm.violation.map(|v| v.class)
            );
            rep.harness_error = true;
            continue;
        }
        let from_size = S::size(&sc);
        let m = if minimised_count < 16 {
            minimised_count += 1;
            minimise::<S>(prop, sc.clone(), confirm.violation.clone().unwrap())
        } else {
            Minimised {
                scenario: sc.clone(),
                violation: confirm.violation.clone().unwrap(),
                executions: 0,
            }
        };
        // final fresh-process replay of the minimised scenario, with trace; if the minimised scenario does
        // not replay in a fresh process (the in-process minimiser was misled by process state), fall back
        // to the original scenario, which was confirmed in a fresh process above
        let mut m = m;
        let mut scv = serde_json::to_value(&m.scenario).unwrap();
        let mut fin = exec_in_child(S::NAME, prop, &scv, true);
        let mut ok = fin.violation.as_ref().map(|v| v.class == m.violation.class).unwrap_or(false);
        if !ok {
            eprintln!("NOTE: minimised scenario for {} does not replay in a fresh process; reporting the original scenario", sig);
            m = Minimised { scenario: sc.clone(), violation: confirm.violation.clone().unwrap(), executions: m.executions };
            scv = serde_json::to_value(&m.scenario).unwrap();
            fin = exec_in_child(S::NAME, prop, &scv, true);
            ok = fin.violation.as_ref().map(|v| v.class == m.violation.class).unwrap_or(false);
        }
        if !ok {
            eprintln!("HARNESS: scenario of run {} ({}) stopped replaying - determinism bug", f.run, sig);
            rep.harness_error = true;
            continue;
        }
        if class_needs_child(&m.violation.class) && m.violation.tags.is_empty() {
            m.violation.tags = S::death_tags(&m.scenario);
        }
        let min_sig = m.violation.signature();
        if reported_min_sigs.contains(&min_sig) {
            continue; // same minimal failure as one already reported
        }
        reported_min_sigs.insert(min_sig.clone());
        let fname = format!("{}-{}-{}-{}.json", prop, S::NAME, seed, f.run);
        let path = verif_root().join("replays").join(&fname);
        let _ = std::fs::create_dir_all(path.parent().unwrap());
        let doc = json!({
            "property": prop,
            "sim": S::NAME,
            "verif_seed": seed,
            "run": f.run,
            "profile": profile_name(),
            "scenario": scv,
            "violation": m.violation,
            "signature": min_sig,
            "original_signature": sig,
            "instances_with_original_signature": count,
            "trace": fin.trace,
            "minimised_from": from_size,
            "minimised_to": S::size(&m.scenario),
            "minimiser_executions": m.executions,
        });
        std::fs::write(&path, serde_json::to_string_pretty(&doc).unwrap()).expect("HARNESS: cannot write replay file");
        let pstr = path.to_string_lossy().to_string();
        if let Some(k) = known.iter().find(|k| k.property == prop && k.sig == min_sig) {
            println!("KNOWN-FINDING: property={} {} (replay={})", prop, k.text, pstr);
            rep.known_hits.push(min_sig.clone());
        } else {
            println!("VIOLATION property={} replay={}", prop, pstr);
            println!("  signature: {}", min_sig);
            println!("  detail: {}", m.violation.detail);
            rep.violations += 1;
        }
        rep.replay_files.push(pstr);
    }
    for (sig, n) in &res.extra_sigs {
        if !groups.contains_key(sig) {
            println!("NOTE: {} further violations with signature {} were not collected", n, sig);
        }
    }
    rep
}

/// `replay <file>`: run the explicit scenario of a replay file in a fresh process.
pub fn replay_main<S: Sim>(prop: &str, doc: &Value) -> i32 {
    let want: Violation = match serde_json::from_value(doc["violation"].clone()) {
        Ok(v) => v,
        Err(_) => {
            eprintln!("HARNESS: replay file has no violation record");
            return 2;
        }
    };
    let r = exec_in_child(S::NAME, prop, &doc["scenario"], true);
    for l in &r.trace {
        println!("  | {}", l);
    }
    match r.violation {
        Some(v) if v.class == want.class => {
            println!("REPRODUCED property={} class={} tags={}", prop, v.class, v.tags);
            println!("  detail: {}", v.detail);
            1
        }
        Some(v) => {
            println!("DIFFERENT property={} expected class={} got class={}", prop, want.class, v.class);
            1
        }
        None => {
            println!("NOT-REPRODUCED property={} (expected class={})", prop, want.class);
            0
        }
    }
}
