//! Self-contained PRNG (SplitMix64 seeding xoshiro256**). No dependency on any `rand` version, so
//! that streams are stable across toolchains. One `u64` decides everything.

#[inline]
pub fn splitmix(state: &mut u64) -> u64 {
    *state = state.wrapping_add(0x9E37_79B9_7F4A_7C15);
    let mut z = *state;
    z = (z ^ (z >> 30)).wrapping_mul(0xBF58_476D_1CE4_E5B9);
    z = (z ^ (z >> 27)).wrapping_mul(0x94D0_49BB_1331_11EB);
    z ^ (z >> 31)
}

/// Mix several integers into one seed (order-sensitive).
pub fn mix(parts: &[u64]) -> u64 {
    let mut s = 0x243F_6A88_85A3_08D3u64;
    for &p in parts {
        s ^= p.wrapping_mul(0x9E37_79B9_7F4A_7C15);
        s = splitmix(&mut s.clone()) ^ s.rotate_left(23);
    }
    let mut t = s;
    splitmix(&mut t)
}

/// FNV-1a over a string, used to turn names into seed components.
pub fn name_hash(s: &str) -> u64 {
    let mut h = 0xcbf2_9ce4_8422_2325u64;
    for b in s.bytes() {
        h ^= b as u64;
        h = h.wrapping_mul(0x0000_0100_0000_01B3);
    }
    h
}

#[derive(Clone, Debug)]
pub struct Prng {
    s: [u64; 4],
}

impl Prng {
    pub fn new(seed: u64) -> Self {
        let mut sm = seed;
        let s = [
            splitmix(&mut sm),
            splitmix(&mut sm),
            splitmix(&mut sm),
            splitmix(&mut sm),
        ];
        Prng { s }
    }

    /// Independent sub-stream for a named seam.
    pub fn sub(&self, name: &str) -> Prng {
        Prng::new(mix(&[self.s[0], self.s[1], name_hash(name)]))
    }

    #[inline]
    pub fn next_u64(&mut self) -> u64 {
        let result = self.s[1].wrapping_mul(5).rotate_left(7).wrapping_mul(9);
        let t = self.s[1] << 17;
        self.s[2] ^= self.s[0];
        self.s[3] ^= self.s[1];
        self.s[1] ^= self.s[2];
        self.s[0] ^= self.s[3];
        self.s[2] ^= t;
        self.s[3] = self.s[3].rotate_left(45);
        result
    }

    /// Uniform in `0..n` (n > 0). Slight modulo bias is irrelevant here.
    #[inline]
    pub fn below(&mut self, n: u64) -> u64 {
        debug_assert!(n > 0);
        ((self.next_u64() as u128 * n as u128) >> 64) as u64
    }

    #[inline]
    pub fn usize_below(&mut self, n: usize) -> usize {
        self.below(n as u64) as usize
    }

    /// Uniform in `lo..=hi`.
    #[inline]
    pub fn range(&mut self, lo: usize, hi: usize) -> usize {
        debug_assert!(lo <= hi);
        lo + self.below((hi - lo + 1) as u64) as usize
    }

    /// True with probability num/den.
    #[inline]
    pub fn chance(&mut self, num: u64, den: u64) -> bool {
        self.below(den) < num
    }

    #[inline]
    pub fn pick<'a, T>(&mut self, xs: &'a [T]) -> &'a T {
        &xs[self.usize_below(xs.len())]
    }

    /// Index drawn according to integer weights.
    pub fn weighted(&mut self, weights: &[u32]) -> usize {
        let total: u64 = weights.iter().map(|&w| w as u64).sum();
        let mut x = self.below(total);
        for (i, &w) in weights.iter().enumerate() {
            if x < w as u64 {
                return i;
            }
            x -= w as u64;
        }
        weights.len() - 1
    }

    /// Heavy-tailed size in `lo..=hi`: mostly small, sometimes large.
    pub fn heavy(&mut self, lo: usize, hi: usize) -> usize {
        if hi <= lo {
            return lo;
        }
        let span = (hi - lo) as f64;
        let u = (self.next_u64() >> 11) as f64 / (1u64 << 53) as f64;
        let x = u * u * u; // cubic: mass near 0
        lo + (x * (span + 1.0)).min(span) as usize
    }

    pub fn unit_f64(&mut self) -> f64 {
        (self.next_u64() >> 11) as f64 / (1u64 << 53) as f64
    }

    pub fn shuffle<T>(&mut self, xs: &mut [T]) {
        for i in (1..xs.len()).rev() {
            let j = self.usize_below(i + 1);
            xs.swap(i, j);
        }
    }
}
