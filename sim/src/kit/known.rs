//! `/verif/KNOWN_FINDINGS.txt`: one entry per line.
//!
//! ```text
//! known: property=<id> sig=<violation class>|<scenario predicate tags> :: <what fails, smallest input>
//! fixed: property=<id> <commit> <what failed>
//! ```
//!
//! Only `known:` lines suppress anything; the file is never written at run time.

pub struct Known {
    pub property: String,
    pub sig: String,
    pub text: String,
}

pub fn load() -> Vec<Known> {
    let path = super::runner::verif_root().join("KNOWN_FINDINGS.txt");
    let text = match std::fs::read_to_string(&path) {
        Ok(t) => t,
        Err(_) => return Vec::new(),
    };
    let mut out = Vec::new();
    for line in text.lines() {
        let line = line.trim();
        if let Some(rest) = line.strip_prefix("known:") {
            let rest = rest.trim();
            let (head, text) = match rest.split_once(" :: ") {
                Some(x) => x,
                None => continue,
            };
            let head = head.trim();
            let prop = head
                .strip_prefix("property=")
                .and_then(|s| s.split_once(' '))
                .map(|(p, r)| (p.to_string(), r.trim().to_string()));
            if let Some((p, r)) = prop {
                if let Some(sig) = r.strip_prefix("sig=") {
                    out.push(Known {
                        property: p,
                        sig: sig.to_string(),
                        text: text.trim().to_string(),
                    });
                }
            }
        }
    }
    out
}
