#!/bin/bash
# False-alarm regression: apply a behaviour-preserving change (benign/<id>/patch.diff) to /repo, run the quick
# checks given for it, undo. Every check must exit 0. Edits /repo temporarily; not a registered check.
#   run_benign.sh <id> <check ids...>
set -u
ROOT="$(cd "$(dirname "${BASH_SOURCE[0]}")/.." && pwd)"
cd "$ROOT"
id="$1"; shift
git -C /repo apply "$ROOT/benign/$id/patch.diff" || { echo "$id: patch does not apply"; exit 2; }
: > "benign/$id/result.txt"
for c in "$@"; do
  out=$(VERIF_FAST=1 ./check "$c" quick 2>&1); rc=$?
  echo "$id: check $c rc=$rc" | tee -a "benign/$id/result.txt"
  if [ $rc -ne 0 ]; then echo "$out" | grep -E "VIOLATION|signature|detail|HARNESS" | head -8 | tee -a "benign/$id/result.txt"; fi
done
git -C /repo checkout -q -- . ; git -C /repo clean -fdq -e target
rm -f replays/*.json
