#!/usr/bin/env python3
"""Fold seeded/<id>/result.txt into seeded/<id>/meta.json (confirmed / detected_by / what_was_run)."""
import json, os, re, sys
root = os.path.join(os.path.dirname(os.path.abspath(__file__)), "..", "seeded")
for d in sorted(os.listdir(root)):
    mp = os.path.join(root, d, "meta.json"); rp = os.path.join(root, d, "result.txt")
    if not (os.path.exists(mp) and os.path.exists(rp)):
        continue
    m = json.load(open(mp)); r = open(rp).read()
    base = re.search(r"baseline-with-change: passed=(\d+) failed=(\d+) \[(.*?)\]", r)
    only_known = bool(base) and all(("argmax" in t or "scanner_max" in t) for t in base.group(3).split(";") if t.strip())
    m["confirmed"] = {
        "demo_passes_without_change": "demo-without-change: pass" in r,
        "demo_fails_with_change": "demo-with-change: FAIL (expected)" in r,
        "baseline_with_change": {"passed": int(base.group(1)), "failed": int(base.group(2)), "only_the_4_always_failing_argmax_tests": only_known} if base else None,
    }
    det = {}
    for c, rc in re.findall(r"check (C\d+) quick: rc=(\d)", r):
        sigs = re.findall(r"signature: (.*)", r)
        lp = os.path.join(root, d, f"check_{c}.log")
        if not sigs and os.path.exists(lp):
            sigs = re.findall(r"signature: (.*)", open(lp).read())
        det[c] = {"rc": int(rc), "signatures": sorted(set(sigs))[:8]}
    m["detected_by"] = det
    m["what_was_run"] = "tools/eval_seed.sh: demo without change, cargo test --workspace with change, demo with change (scratch worktree); then git -C /repo apply patch.diff, ./check <id> quick, git -C /repo checkout"
    json.dump(m, open(mp, "w"), indent=1)
    print(d, m["confirmed"]["demo_fails_with_change"], {k: v["rc"] for k, v in det.items()})
