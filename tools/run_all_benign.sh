#!/bin/bash
# Runs every kept behaviour-preserving change against the quick checks that touch the changed code.
ROOT="$(cd "$(dirname "${BASH_SOURCE[0]}")/.." && pwd)"; cd "$ROOT"
./tools/run_benign.sh b3-1 C04 C16 C06 C02 C18
./tools/run_benign.sh b3-2 C19 C04 C06 C02
./tools/run_benign.sh b3-3 C18
./tools/run_benign.sh b3-4 C14 C15
./tools/run_benign.sh b2-1 C16 C06
./tools/run_benign.sh b2-2 C14 C15
./tools/run_benign.sh b2-3 C14 C15
./tools/run_benign.sh b2-4 C14 C15
./tools/run_benign.sh b1-1 C19 C04 C06 C02 C16
./tools/run_benign.sh b1-2 C04 C06 C16 C02 C18
./tools/run_benign.sh b1-3 C02 C03 C16 C06
./tools/run_benign.sh b1-4 C02 C03 C06
