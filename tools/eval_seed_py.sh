#!/bin/bash
# Like eval_seed.sh, for seeds whose demonstration is a Python unittest file run by the embedded-CPython
# harness of lightmotif-py (cargo test -p lightmotif-py).
#   eval_seed_py.sh <seed dir> <property id> <scratch worktree> <demo number>
set -u
SEED="$1"; PROP="$2"; WT="$3"; N="$4"
export CARGO_NET_OFFLINE=true
PYLIB="$(python3 -c "import sysconfig; print(sysconfig.get_config_var('LIBDIR') or '')" 2>/dev/null)"
export LD_LIBRARY_PATH="$PYLIB${LD_LIBRARY_PATH:+:$LD_LIBRARY_PATH}"
exec > >(tee "$SEED/result.txt") 2>&1
T="$WT/lightmotif-py/lightmotif/tests"
cd "$WT" || exit 2
git checkout -q -- . ; git clean -fdq -e seeded -e target
install_demo() { cp "$SEED/demo.py" "$T/test_seeded_demo_$N.py"; python3 - "$T/__init__.py" "$N" <<'PY'
import sys
p, n = sys.argv[1], sys.argv[2]
s = open(p).read()
s = s.replace("def load_tests", f"from . import test_seeded_demo_{n}\n\ndef load_tests", 1)
s = s.replace("    return suite", f"    suite.addTests(loader.loadTestsFromModule(test_seeded_demo_{n}))\n    return suite", 1)
open(p, "w").write(s)
PY
}
run_py() { cargo test -p lightmotif-py --offline 2>&1 | tail -60; }
install_demo
out=$(run_py); if echo "$out" | grep -q "^OK"; then echo "demo-without-change: pass"; else echo "demo-without-change: FAIL (unexpected)"; echo "$out" | tail -5; fi
git checkout -q -- . ; git clean -fdq -e seeded -e target
git apply "$SEED/patch.diff" || { echo "patch does not apply"; exit 2; }
cargo test --workspace --no-fail-fast --offline >"$SEED/baseline_with_change.log" 2>&1
failed=$(grep -E "^test .* \.\.\. FAILED" "$SEED/baseline_with_change.log" | sort -u | tr '\n' ';')
nfail=$(grep -cE "^test .* \.\.\. FAILED" "$SEED/baseline_with_change.log")
npass=$(grep -E "^test result" "$SEED/baseline_with_change.log" | awk '{s+=$4} END {print s}')
pyok=$(grep -cE "^OK" "$SEED/baseline_with_change.log")
echo "baseline-with-change: passed=$npass failed=$nfail [$failed] python-suite-ok=$pyok"
install_demo
out=$(run_py); if echo "$out" | grep -q "^OK"; then echo "demo-with-change: pass (unexpected)"; else echo "demo-with-change: FAIL (expected)"; fi
git checkout -q -- . ; git clean -fdq -e seeded -e target
cd /repo && git apply "$SEED/patch.diff" || { echo "patch does not apply to /repo"; exit 2; }
out=$(cd /verif && ./check "$PROP" quick 2>&1); rc=$?
echo "check $PROP quick: rc=$rc"
echo "$out" | grep -E "VIOLATION|KNOWN|signature|detail|HARNESS" | head -12
echo "$out" > "$SEED/check_$PROP.log"
git -C /repo checkout -q -- .
git -C /repo clean -fdq -e target
rm -f /verif/replays/*.json
