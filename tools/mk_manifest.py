import json
claimed = {
 "C14": dict(engine="stream", level="exploration", technique="deterministic simulation: seeded search over stream delivery schedules (chunking, BufReader capacity, EINTR) against a reference model of the file",
   text="Seeded deterministic simulation of the four lightmotif-io readers behind a simulated byte source: a grammar-driven generator writes well-formed files together with their reference model; every run delivers the bytes under a generated schedule (direct BufRead or BufReader capacity 1..len+1, chunk schedules, cuts aimed at delimiters, EINTR bursts) and compares record by record, field by field and cell by cell, then requires end-of-input twice. Bundled databases are checked for schedule-independence and record count. Exploration: a clean batch is evidence, not proof.",
   note="Trusted: the generator's notion of well-formed syntax (conservative, section 3.3 of DESIGN.md); Rust's str::parse for cell tokens; SimSource honouring the Read/BufRead contracts.", ref="DESIGN.md section 4 C14"),
 "C15": dict(engine="stream", level="fault_enumeration", technique="deterministic simulation with fault injection: exhaustive single-fault enumeration (EOF at every byte, byte substitution/deletion/insertion, hard I/O error at every offset) x delivery schedules, plus seeded multi-fault search",
   text="Every single fault over a fixed corpus (the repository's test files, generated valid files, hand-written edge files) is enumerated: EOF as the crash point at every byte, 19 substitution values at every offset, every deletion, 19 insertion values at every gap, a sticky hard I/O error at every offset; each under three delivery schedules. Then seeded multi-fault and arbitrary-byte inputs under random transports. Oracle: constructing the reader, each next() and dropping it never panic; the consumer loop ends within len+2 items and the source within its step budget.",
   note="Trusted: catch_unwind attribution of panics to library code (harness panics exit 2); the step budget 8*len+8*eintr+1000 source calls is generous for any reader that consumes at least one byte per non-EOF fill; hangs that never touch the stream are caught only by a 120 s watchdog.", ref="DESIGN.md section 4 C15"),

 "C02": dict(engine="scan", level="exploration", technique="deterministic simulation: seeded search over worlds (simulated host CPU, block-size knob, allocator policy, caller program) against a brute-force score table",
   text="Seeded deterministic simulation of lightmotif::scan::Scanner in a simulated world: host CPU profile (generic / sse2 / avx2 through the verif-hooks override), block size relative to the sequence rows and wrap rows, allocator policy, spare look-ahead rows, and a caller program (k next() calls, then drain / max / drop). Invariants after every next(): position in range, exactly once, exact score, >= threshold; at exhaustion every position of the brute-force table at or above the threshold was returned; None within (L-M+1)+2 calls; no panic. The thorough tier additionally enumerates every block size 1..R+W+2 for 200 fixed worlds. A Python tier (embedded CPython) drives lightmotif.scan(pssm, sequence, threshold=, block_size=) over the same worlds to exhaustion.",
   note="Trusted: the brute-force f32 left-to-right score table computed by the harness from the matrix values the library holds; matrices stay in contract (finite non-wildcard entries, wildcard column -inf or <= row minimum). Weaker adversary than a stream or RNG seam (no fault in the narrow sense): the failures it targets are environment-triggered (host CPU, block boundaries).", ref="DESIGN.md section 4 C02"),
 "C03": dict(engine="scan", level="exploration", technique="deterministic simulation: seeded search over worlds and next()/max() interleavings against a brute-force score table",
   text="Same worlds as C02; the caller program is k next() calls followed by max(). Oracle: with U = expected hits not yet returned, max() is None iff U is empty, otherwise the returned position is in range, not already consumed, carries its exact score, meets the threshold and equals the maximum over U (ties: any maximal position). Generators plant consensus and near-consensus words so that several positions have near-equal scores that 8-bit rounding reorders.",
   note="Trusted: as C02. Floating point: exact-arithmetic matrices (entries k/8) are compared strictly; otherwise a returned score within 2*M*2^-24*sum|term| of the maximum is accepted and counted as tolerated.", ref="DESIGN.md section 4 C03"),

 "C04": dict(engine="stripe", level="exploration", technique="deterministic simulation: seeded search over operation histories on one long-lived striped buffer (simulated host CPU, poisoning / moving allocator) against a reference model, whole-matrix comparison after every operation",
   text="Seeded deterministic simulation of one long-lived StripedSequence<A, C> (DNA and protein, C in {1,2,4,16,32}) through histories of stripe_into / stripe (generic, AVX2, dispatched), to_striped, configure_wrap (growing, shrinking, repeated, larger than the row count), configure, clone, Index and symbol counts, on a simulated host CPU and under an allocator that poisons fresh (0xA5) and freed (0x5A) memory and always moves on growth. After every operation the whole matrix, len, wrap, Index and counts are compared with a (Vec<Symbol>, wrap) reference model; plus every length 0..4200 for each backend.",
   note="Trusted: the reference model of section 4 C04 of DESIGN.md (look-ahead cell = symbol of linear index c*R+R+k, wildcard beyond L or beyond the last column). Weaker adversary than a stream or RNG seam: host CPU, allocator and operation order.", ref="DESIGN.md section 4 C04"),
 "C06": dict(engine="mem", level="exploration", technique="deterministic simulation with an adversarial allocator seam: every heap block in its own pages flush against an inaccessible page (guard-end / guard-start), freed blocks unmapped, exact alignment + poison; a trap in a single-threaded worker is attributed to the run in flight",
   text="The workloads of the scan, stripe, gibbs and dense simulators and a direct-call generator over the safe public API (encode, stripe, configure, f32 / u8 scoring with row sub-ranges, max / argmax / threshold, clone; DNA and protein; explicit generic / SSE2 / AVX2 pipelines and the dispatcher under three simulated host profiles) run with every heap block - argument buffers included - in its own pages, flush against a PROT_NONE page after its end or before its start, freed blocks unmapped until the run ends. One byte outside a live block, any touch of a freed block or a misaligned aligned move is a SIGSEGV attributed to the announced run, confirmed and minimised in fresh processes. The thorough tier adds every length for AVX2 / dispatched striping.",
   note="Trusted: the kernel's page protection. Not covered: out-of-bounds inside the same block (left to value oracles), stack and global objects, NEON code (not compiled on x86-64). Miri cannot execute the SSE2/AVX2 kernels (sfence unsupported).", ref="DESIGN.md section 4 C06"),
 "C16": dict(engine="gibbs", level="exploration", technique="deterministic simulation with an RNG seam: recorded PRNG stream with sparse forced extreme draws, simulated host CPU and allocator; invariants recomputed from the reported alignment after every step; trace equality across re-execution",
   text="Seeded deterministic simulation of the Gibbs sampler behind an RNG seam (rand_core::RngCore): recorded draws, sparse forced values 0 / u64::MAX / repeat, OOPS and ZOOPS modes, DNA and protein, planted motifs and wildcard symbols near sequence ends, simulated host CPU, poisoning allocator. After the constructor and after every next(): count matrix, sequence count, background, start + width <= length, iteration counts and iteration scoring matrix equal a recomputation from the reported alignment; step counter; once None always None; the whole run is executed twice and the traces are identical.",
   note="Trusted: the harness's recomputation of window and background counts; the library's own to_freq / into_scoring for the iteration scoring matrix. Out of contract: datasets whose alignment without the held-out sequence would be empty.", ref="DESIGN.md section 4 C16"),
 "C19": dict(engine="dense", level="exploration", technique="deterministic simulation: seeded search over operation histories under an adversarial allocator (exact alignment, poison, move-on-grow) against a Vec<Vec<T>> reference model",
   text="Seeded deterministic simulation of DenseMatrix<T, C> (T in {u8,u32,f32,i64}, C in {1,5,7,16,21,32,43}) through histories of new / with_capacity / from_rows / uninitialized+write / resize / reserve / row, cell and coordinate writes / fill / clone / equality by another construction route with different padding / inequality / forward, reverse, mutable and by-reference iteration, under an allocator that returns addresses aligned exactly as requested and never more, poisons fresh and freed memory and moves on every growth. After every operation: row count, stride, 32-byte row alignment and every cell against the model.",
   note="Trusted: the Vec<Vec<T>> model. The alignment claim is checked against what the type's layout requests from the allocator, which is the point: under the system allocator over-alignment is luck.", ref="DESIGN.md section 4 C19"),

 "C18": dict(engine="pyview", level="exploration", technique="deterministic simulation inside an embedded CPython: seeded search over object histories (index, len, memoryview export, re-read of earlier views, scoring that re-sizes the object, copy, drop + gc) under poisoning / guard-page allocators, against a logical-content model",
   text="Embedded CPython (pyo3) drives the real lightmotif extension module through seeded histories: new sequences and motifs, integer indexing aimed at 0, len-1, len, -1, -len, -len-1 on every indexable class, len(), memoryview export of every exporting class, re-reading every earlier view after later operations, calculate() / scan() that add look-ahead rows (re-sizing the striped sequence behind live views), copy, drop + gc.collect(). The Rust-side buffers the views expose are placed by the allocator seam (growth always moves; freed memory poisoned or unmapped), so a stale view shows 0x5A bytes or traps deterministically. Oracle: Python sequence semantics, logical len, each view's ndim / format / shape and every element against a model built with the core library from the same inputs, at export and at every later read; only Exception subclasses, never PanicException.",
   note="Trusted: the Rust-side logical-content model (core library conversions from the same inputs); CPython's memoryview.tolist() as the reader of shape / strides / format. Python's own allocations are outside the allocator seam. Either orientation of a ScoringMatrix view and either row extent (with or without look-ahead rows) of a StripedSequence view is accepted as long as every element is the logical one.", ref="DESIGN.md section 4 C18"),
}
na = {
 "C01":"pure function of (matrix, sequence, row range, backend): no schedule, fault, clock, stream or stateful history for a simulator to control",
 "C05":"pure function of (bytes, backend): no schedule, fault or history",
 "C07":"pure function of a score matrix and a backend",
 "C08":"pure function of (matrix, sequence, backend); its consequence (the pre-filter never loses a hit) is observed through C02 on every simulated host profile",
 "C09":"pure arithmetic on matrices: no state, stream, randomness or environment",
 "C10":"pure arithmetic on matrices: no state, stream, randomness or environment",
 "C11":"pure numerical algorithm (its only candidate source of nondeterminism, a HashMap, uses a fixed hasher)",
 "C12":"pure numerical algorithm",
 "C13":"pure numerical algorithm",
 "C17":"stateless wrappers around pure functions; its stream slice is simulated under C14/C15 and its view slice under C18",
}
pending = {}
import sys
done = set(sys.argv[1:]) if len(sys.argv)>1 else set()
checks=[]
for pid,c in claimed.items():
    checks.append({
      "property_id": pid,
      "quick_cmd": f"./check {pid} quick",
      "thorough_cmd": f"./check {pid} thorough",
      "evidence_file": f"/verif/evidence/{pid}.json",
      "replay_cmd_template": "./check replay {path}",
      "engine": c["engine"],
      "level_claimed": {"category": c["level"], "text": c["text"], "design_ref": c["ref"]},
      "level_note": c["note"],
      "technique": c["technique"],
    })
nas=[{"property_id":k,"reason":v} for k,v in na.items()]
for k,v in pending.items():
    if k not in claimed:
        nas.append({"property_id":k,"reason":f"planned (simulator `{v}`, see DESIGN.md) but not built yet; not claimed until its check exists"})
nas.sort(key=lambda x:x["property_id"])
m={
 "version":1,
 "setup_cmd":"cd /verif && ./check build",
 "hooks":{"guard":"cargo feature `verif-hooks` of crate lightmotif (off by default)",
          "enable":"the harness crates depend on /repo/lightmotif by path with features = [\"verif-hooks\"]; every check starts with cargo build --offline of /verif/sim, which recompiles /repo's current working tree",
          "baseline_off_cmd":"cd /repo && cargo test --workspace --no-fail-fast --offline",
          "source_commits":["ca8be19"],
          "add_only":True},
 "engines":[{"name":"pystream","path":"/verif/pysim/src/pystream.rs","serves_properties":["C14","C15"],"kind_free_text":"Python tier of the stream simulator: lightmotif.load() fed by a Python file object with short reads, EINTR and failures"},{"name":"pyscan","path":"/verif/pysim/src/pyscan.rs","serves_properties":["C02"],"kind_free_text":"Python tier of the scan simulator: lightmotif.scan() iterated to exhaustion on simulated host CPUs"},{"name":"pyview","path":"/verif/pysim/src/pyview.rs","serves_properties":["C18"],"kind_free_text":"embedded CPython driving the lightmotif extension module; object histories x allocator policies; logical-content model of every view and index"},{"name":"stripe","path":"/verif/sim/src/sims/stripe.rs","serves_properties":["C04"],"kind_free_text":"deterministic simulation of a long-lived striped sequence buffer: operation histories x host CPU x allocator"},{"name":"mem","path":"/verif/sim/src/sims/mem.rs","serves_properties":["C06"],"kind_free_text":"all workloads under guard-page / poison allocators; traps attributed to the run in flight"},{"name":"gibbs","path":"/verif/sim/src/sims/gibbs.rs","serves_properties":["C16"],"kind_free_text":"deterministic simulation of the Gibbs sampler behind an RNG seam with forced draws"},{"name":"dense","path":"/verif/sim/src/sims/dense.rs","serves_properties":["C19"],"kind_free_text":"deterministic simulation of DenseMatrix operation histories under an adversarial allocator"},{"name":"scan","path":"/verif/sim/src/sims/scan.rs","serves_properties":["C02","C03"],"kind_free_text":"deterministic simulation of the block scanner in a simulated world: host CPU profile, block-size knob, allocator policy, caller program"},{"name":"stream","path":"/verif/sim/src/sims/stream","serves_properties":["C14","C15"],"kind_free_text":"deterministic simulation of the motif-file readers over a simulated byte source (chunk schedules, EINTR, truncation, corruption, hard I/O errors)"}],
 "checks":checks,
 "not_applicable":nas,
 "notes":"Deterministic simulation with fault injection; see DESIGN.md. Exit codes: 0 held, 1 VIOLATION, 2 harness error. Genuine defects found and repaired are listed in KNOWN_FINDINGS.txt (fixed: lines).",
}
json.dump(m,open('/verif/MANIFEST.json','w'),indent=1)
