#!/bin/bash
# Evaluate one seeded change: confirm it (builds, baseline unchanged, demo fails with / passes without) in a
# scratch worktree, then run the framework's quick check of the property against it in /repo and undo it.
#   eval_seed.sh <seed dir with patch.diff, demo.rs, meta.json> <property id> <scratch worktree> [check ids...]
set -u
SEED="$1"; PROP="$2"; WT="$3"; shift 3
CHECKS="${*:-$PROP}"
export CARGO_NET_OFFLINE=true
PYLIB="$(python3 -c "import sysconfig; print(sysconfig.get_config_var('LIBDIR') or '')" 2>/dev/null)"
export LD_LIBRARY_PATH="$PYLIB${LD_LIBRARY_PATH:+:$LD_LIBRARY_PATH}"
LOG="$SEED/eval.log"; : > "$LOG"; exec > >(tee "$SEED/result.txt") 2>&1
demo_place=$(python3 -c "import json,sys; print(json.load(open(sys.argv[1]))['demo_path'])" "$SEED/meta.json")
demo_pkg=$(python3 -c "import json,sys; print(json.load(open(sys.argv[1]))['demo_package'])" "$SEED/meta.json")
demo_flags=$(python3 -c "import json,sys; print(json.load(open(sys.argv[1])).get('demo_cargo_flags',''))" "$SEED/meta.json")
demo_name=$(basename "$demo_place" .rs)
cd "$WT" || exit 2
git checkout -q -- . ; git clean -fdq -e seeded -e target ; rm -f "$WT/$demo_place"
# 1. demo passes on the unchanged code
mkdir -p "$(dirname "$WT/$demo_place")"; cp "$SEED/demo.rs" "$WT/$demo_place"
if cargo test --offline -p "$demo_pkg" $demo_flags --test "$demo_name" >>"$LOG" 2>&1; then echo "demo-without-change: pass"; else echo "demo-without-change: FAIL (unexpected)"; fi
# 2. apply the change: builds, baseline unchanged, demo fails
if ! git apply "$SEED/patch.diff" 2>>"$LOG"; then echo "patch does not apply"; exit 2; fi
rm -f "$WT/$demo_place"
cargo test --workspace --no-fail-fast --offline >"$SEED/baseline_with_change.log" 2>&1
failed=$(grep -E "^test .* \.\.\. FAILED" "$SEED/baseline_with_change.log" | sort -u | tr '\n' ';')
nfail=$(grep -cE "^test .* \.\.\. FAILED" "$SEED/baseline_with_change.log")
npass=$(grep -E "^test result" "$SEED/baseline_with_change.log" | awk '{s+=$4} END {print s}')
echo "baseline-with-change: passed=$npass failed=$nfail [$failed]"
mkdir -p "$(dirname "$WT/$demo_place")"; cp "$SEED/demo.rs" "$WT/$demo_place"
if cargo test --offline -p "$demo_pkg" $demo_flags --test "$demo_name" >>"$LOG" 2>&1; then echo "demo-with-change: pass (unexpected)"; else echo "demo-with-change: FAIL (expected)"; fi
git checkout -q -- . ; git clean -fdq -e seeded -e target ; rm -f "$WT/$demo_place"
# 3. the framework against the change, in /repo
cd /repo && git apply "$SEED/patch.diff" || { echo "patch does not apply to /repo"; exit 2; }
for c in $CHECKS; do
  out=$(cd /verif && ./check "$c" quick 2>&1); rc=$?
  echo "check $c quick: rc=$rc"
  echo "$out" | grep -E "VIOLATION|KNOWN|signature|detail|HARNESS" | head -12
  echo "$out" > "$SEED/check_$c.log"
done
git -C /repo checkout -q -- .
git -C /repo clean -fdq -e target
rm -f /verif/replays/*.json
