#!/bin/bash
# Regression of the framework against every kept seeded change: apply seeded/<id>/patch.diff to /repo, run the
# quick check of its property, undo. Prints one line per seed. NOT a registered check; it edits /repo temporarily.
#   run_all_seeds.sh [seed ids...]
set -u
ROOT="$(cd "$(dirname "${BASH_SOURCE[0]}")/.." && pwd)"
cd "$ROOT"
seeds="${*:-$(ls seeded)}"
missed=0
for s in $seeds; do
  [ -f "seeded/$s/patch.diff" ] || continue
  p=$(python3 -c "import json,sys; print(json.load(open(sys.argv[1]))['property'])" "seeded/$s/meta.json")
  if ! git -C /repo apply "$ROOT/seeded/$s/patch.diff" 2>/dev/null; then echo "$s: patch does not apply"; continue; fi
  out=$(VERIF_FAST=1 ./check "$p" quick 2>&1); rc=$?
  sig=$(echo "$out" | grep -E "signature:" | sed 's/ *signature: //' | sort -u | head -2 | tr '\n' ';')
  echo "$s: check $p rc=$rc $sig"
  [ $rc -eq 1 ] || missed=$((missed+1))
  git -C /repo checkout -q -- . ; git -C /repo clean -fdq -e target
  rm -f replays/*.json
done
echo "seeds not caught: $missed"
