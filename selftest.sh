#!/bin/bash
# Self-tests of the machinery.
#   selftest.sh determinism [runs]   every simulator, N runs, twice, with 1 and with 16 workers, in separate
#                                    processes: (run, trace_hash, outcome) must be identical
#   selftest.sh seeds [n] [ids...]   quick tier of the given checks under n different VERIF_SEEDs: must be silent
set -u
ROOT="$(cd "$(dirname "${BASH_SOURCE[0]}")" && pwd)"
export VERIF_ROOT="$ROOT"
BIN_RS="$ROOT/sim/target/checked/lmsim"
BIN_PY="$ROOT/pysim/target/checked/lmsim-py"
PYLIB="$(python3 -c "import sysconfig; print(sysconfig.get_config_var('LIBDIR') or '')" 2>/dev/null)"
[ -n "$PYLIB" ] && export LD_LIBRARY_PATH="$PYLIB${LD_LIBRARY_PATH:+:$LD_LIBRARY_PATH}"
ALL="C02 C03 C04 C06 C14 C15 C16 C18 C19"
bin_for() { case "$1" in C18) echo "$BIN_PY" ;; *) echo "$BIN_RS" ;; esac; }
mode="${1:-determinism}"
case "$mode" in
  determinism)
    runs="${2:-3000}"
    tmp="$ROOT/replays/.scratch/determinism.$$"
    mkdir -p "$tmp"
    fail=0
    for id in $ALL; do
      BIN="$(bin_for "$id")"
      for seed in 20260926 7; do
        VERIF_SEED=$seed "$BIN" dump "$id" quick --runs "$runs" --spread --workers 1  > "$tmp/a" 2>/dev/null || { echo "HARNESS: dump failed for $id"; fail=2; }
        VERIF_SEED=$seed "$BIN" dump "$id" quick --runs "$runs" --spread --workers 16 > "$tmp/b" 2>/dev/null || { echo "HARNESS: dump failed for $id"; fail=2; }
        VERIF_SEED=$seed "$BIN" dump "$id" quick --runs "$runs" --spread --workers 5  > "$tmp/c" 2>/dev/null || { echo "HARNESS: dump failed for $id"; fail=2; }
        n=$(wc -l < "$tmp/a")
        if cmp -s "$tmp/a" "$tmp/b" && cmp -s "$tmp/a" "$tmp/c" && [ "$n" -ge "$runs" ]; then
          echo "determinism $id seed=$seed: $n runs identical across 1 / 16 / 5 workers (3 process sets)"
        else
          echo "NONDETERMINISM $id seed=$seed: dumps differ (lines: $n)"; diff "$tmp/a" "$tmp/b" | head -5
          [ $fail -eq 0 ] && fail=1
        fi
      done
    done
    rm -rf "$tmp"
    exit $fail ;;
  seeds)
    n="${2:-50}"
    shift 2 2>/dev/null || true
    ids="${*:-$ALL}"
    fail=0
    for id in $ids; do
      BIN="$(bin_for "$id")"
      bad=0
      for s in $(seq 1 "$n"); do
        seed=$((s * 7919 + 13))
        out=$(VERIF_SEED=$seed LMSIM_EVIDENCE_NAME="$id.soak" "$BIN" check "$id" quick 2>&1); rc=$?
        if [ $rc -ne 0 ]; then
          echo "ALARM $id VERIF_SEED=$seed rc=$rc"; echo "$out" | grep -E "VIOLATION|HARNESS|signature|detail" | head -8
          bad=$((bad+1)); fail=1
        fi
      done
      rm -f "$ROOT/evidence/$id.soak.json"
      echo "seeds $id: $n seeds, $bad alarms"
    done
    exit $fail ;;
  *) echo "usage: selftest.sh determinism [runs] | seeds [n] [ids...]" >&2; exit 2 ;;
esac
